----------------------------- MODULE TextMatch -----------------------------
(***************************************************************************)
(* The reading direction of the notation: fixed-width matching of a text   *)
(* against a documented form (dates, times, zones), a scanner for duration *)
(* designators, and strptime-style matching of a directive sequence.       *)
(* Used only on the specification side: MC_C08 / MC_C10 / MC_C17 check     *)
(* that reading what Text.tla writes gives back the value written (the     *)
(* notation is a retraction), including decimals that end in 9s.           *)
(***************************************************************************)
EXTENDS Text
IsDigit(c) == c >= 48 /\ c <= 57
RECURSIVE NumAt(_, _, _)
\* value of the w digits of t starting at position i (-1 if any is not a digit or the text is too short)
NumAt(t, i, w) ==
  IF w = 0 THEN 0
  ELSE IF i + w - 1 > Len(t) \/ ~IsDigit(t[i + w - 1]) THEN -1
  ELSE LET hi == NumAt(t, i, w - 1) IN IF hi < 0 THEN -1 ELSE hi * 10 + (t[i + w - 1] - 48)
RECURSIVE DigitRun(_, _)
\* number of consecutive digits of t starting at i
DigitRun(t, i) == IF i > Len(t) \/ ~IsDigit(t[i]) THEN 0 ELSE 1 + DigitRun(t, i + 1)
DigitsAt(t, i, n) == [k \in 1..n |-> t[i + k - 1] - 48]

\* ---- complete date-times: read text t as (dform, tform, zform) with xd extra year digits -----------------
DateWidth(f, xd) ==
  LET yw == IF xd > 0 THEN 5 + xd ELSE 4 IN
  CASE f = "cal-b" -> yw + 4 [] f = "cal-e" -> yw + 6 [] f = "ord-b" -> yw + 3 [] f = "ord-e" -> yw + 4
    [] f = "week-b" -> yw + 4 [] OTHER -> yw + 6
\* returns [ok, neg, y, a, b, hh, mi, ss, ds, zh, zm]
MatchTP(t, df, tf, zf, xd) ==
  LET y0 == IF xd > 0 THEN 2 ELSE 1                    \* first year digit
      yw == 4 + xd
      neg == xd > 0 /\ t[1] = CHMinus
      y == NumAt(t, y0, yw)
      d0 == y0 + yw                                    \* first position after the year
      a == CASE df = "cal-b" -> NumAt(t, d0, 2) [] df = "cal-e" -> NumAt(t, d0 + 1, 2) [] df = "ord-b" -> NumAt(t, d0, 3)
             [] df = "ord-e" -> NumAt(t, d0 + 1, 3) [] df = "week-b" -> NumAt(t, d0 + 1, 2) [] OTHER -> NumAt(t, d0 + 2, 2)
      b == CASE df = "cal-b" -> NumAt(t, d0 + 2, 2) [] df = "cal-e" -> NumAt(t, d0 + 4, 2) [] df \in {"ord-b", "ord-e"} -> 0
             [] df = "week-b" -> NumAt(t, d0 + 3, 1) [] OTHER -> NumAt(t, d0 + 5, 1)
      t0 == DateWidth(df, xd) + 2                      \* first position of the time (after 'T')
      ext == tf \in {"hms-e", "hm-e"}
      hh == NumAt(t, t0, 2)
      mi == IF tf = "h" THEN 0 ELSE NumAt(t, t0 + (IF ext THEN 3 ELSE 2), 2)
      ss == IF tf \in {"hms-b", "hms-e"} THEN NumAt(t, t0 + (IF ext THEN 6 ELSE 4), 2) ELSE 0
      tw == CASE tf = "hms-b" -> 6 [] tf = "hms-e" -> 8 [] tf = "hm-b" -> 4 [] tf = "hm-e" -> 5 [] OTHER -> 2
      p1 == t0 + tw                                    \* decimal mark, or the zone, or the end
      hasdec == p1 <= Len(t) /\ t[p1] \in {CHComma, CHDot}
      nd == IF hasdec THEN DigitRun(t, p1 + 1) ELSE 0
      ds == IF hasdec THEN DigitsAt(t, p1 + 1, nd) ELSE <<>>
      z0 == IF hasdec THEN p1 + 1 + nd ELSE p1         \* first position of the zone
      zsign == IF z0 <= Len(t) /\ t[z0] = CHMinus THEN -1 ELSE 1
      zh == CASE zf \in {"none", "Z"} -> 0 [] OTHER -> zsign * NumAt(t, z0 + 1, 2)
      zm == CASE zf = "hhmm" -> zsign * NumAt(t, z0 + 3, 2) [] zf = "hh:mm" -> zsign * NumAt(t, z0 + 4, 2) [] OTHER -> 0
  IN [neg |-> neg, y |-> y, a |-> a, b |-> b, hh |-> hh, mi |-> mi, ss |-> ss, ds |-> ds, zh |-> zh, zm |-> zm]

\* ---- durations: scan "[-]P[nY][nM][nD][T[n[,f]H][n[,f]M][n[,f]S]]" | "[-]PnW" ---------------------------------
\* one number (with optional decimal on time units) followed by a unit letter, starting at i: <<int, digits, letter, next>>
Item(t, i) ==
  LET n == DigitRun(t, i)
      v == NumAt(t, i, n)
      j == i + n
      hasdec == j <= Len(t) /\ t[j] \in {CHComma, CHDot}
      nd == IF hasdec THEN DigitRun(t, j + 1) ELSE 0
      k == IF hasdec THEN j + 1 + nd ELSE j
  IN <<v, IF hasdec THEN DigitsAt(t, j + 1, nd) ELSE <<>>, IF k <= Len(t) THEN t[k] ELSE 0, k + 1>>
RECURSIVE Scan(_, _, _, _)
\* acc: [y, mo, d, h, mi, s, w, ds (of the last time unit), wk]; inT: past the 'T'
Scan(t, i, inT, acc) ==
  IF i > Len(t) THEN acc
  ELSE IF t[i] = CHT THEN Scan(t, i + 1, TRUE, acc)
  ELSE LET it == Item(t, i)  v == it[1]  u == it[3] IN
       CASE u = CHW -> Scan(t, it[4], inT, [acc EXCEPT !.w = v, !.wk = TRUE])
         [] u = CHY -> Scan(t, it[4], inT, [acc EXCEPT !.y = v])
         [] u = CHM /\ ~inT -> Scan(t, it[4], inT, [acc EXCEPT !.mo = v])
         [] u = CHD -> Scan(t, it[4], inT, [acc EXCEPT !.d = v])
         [] u = CHH -> Scan(t, it[4], inT, [acc EXCEPT !.h = v, !.ds = it[2]])
         [] u = CHM /\ inT -> Scan(t, it[4], inT, [acc EXCEPT !.mi = v, !.ds = it[2]])
         [] u = CHS -> Scan(t, it[4], inT, [acc EXCEPT !.s = v, !.ds = it[2]])
         [] OTHER -> [acc EXCEPT !.bad = TRUE]
MatchDur(t) ==
  LET neg == t[1] = CHMinus
      i0 == IF neg THEN 3 ELSE 2
      r == Scan(t, i0, FALSE, [y |-> -1, mo |-> -1, d |-> -1, h |-> -1, mi |-> -1, s |-> -1, w |-> 0, ds |-> <<>>, wk |-> FALSE, bad |-> FALSE])
  IN [neg |-> neg, wk |-> r.wk, w |-> r.w, y |-> r.y, mo |-> r.mo, d |-> r.d, h |-> r.h, mi |-> r.mi, s |-> r.s, ds |-> r.ds, sep |-> CHComma]

\* ---- strptime: read text t with the directive sequence toks (fixed widths; %z is sign + 4 digits) ------------
TokWidth(tk) == CASE tk.d = "lit" -> 1 [] tk.d = "Y" -> 4 [] tk.d = "j" -> 3 [] tk.d = "F" -> 10 [] tk.d = "X" -> 8 [] tk.d = "z" -> 5 [] OTHER -> 2
RECURSIVE TokPos(_, _)
TokPos(toks, k) == IF k = 1 THEN 1 ELSE TokPos(toks, k - 1) + TokWidth(toks[k - 1])
\* the value of directive d in text t (-1 when the format does not contain it); F and X contribute their parts
Field(t, toks, d) ==
  LET ks == {k \in 1..Len(toks) : toks[k].d = d} IN
  IF ks = {} THEN -1 ELSE LET k == CHOOSE x \in ks : TRUE IN NumAt(t, TokPos(toks, k), TokWidth(toks[k]))
PartOf(t, toks, d, off, w) ==
  LET ks == {k \in 1..Len(toks) : toks[k].d = d} IN
  IF ks = {} THEN -1 ELSE LET k == CHOOSE x \in ks : TRUE IN NumAt(t, TokPos(toks, k) + off, w)
First(a, b) == IF a >= 0 THEN a ELSE b
MatchStrp(t, toks) ==
  LET zk == {k \in 1..Len(toks) : toks[k].d = "z"}
      zp == IF zk = {} THEN 0 ELSE TokPos(toks, CHOOSE x \in zk : TRUE)
      zs == IF zp > 0 /\ t[zp] = CHMinus THEN -1 ELSE 1
  IN [y |-> First(Field(t, toks, "Y"), PartOf(t, toks, "F", 0, 4)), mo |-> First(Field(t, toks, "m"), PartOf(t, toks, "F", 5, 2)),
      d |-> First(Field(t, toks, "d"), PartOf(t, toks, "F", 8, 2)), j |-> Field(t, toks, "j"),
      hh |-> First(Field(t, toks, "H"), PartOf(t, toks, "X", 0, 2)), mi |-> First(Field(t, toks, "M"), PartOf(t, toks, "X", 3, 2)),
      ss |-> First(Field(t, toks, "S"), PartOf(t, toks, "X", 6, 2)),
      hasz |-> zp > 0, zh |-> IF zp > 0 THEN zs * NumAt(t, zp + 1, 2) ELSE 0, zm |-> IF zp > 0 THEN zs * NumAt(t, zp + 3, 2) ELSE 0]
=============================================================================
