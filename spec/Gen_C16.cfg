SPECIFICATION Spec
CONSTANT MaxDepth = 2
INVARIANT EmitGen
CHECK_DEADLOCK FALSE
