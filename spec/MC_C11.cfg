INIT Init
NEXT Next
CONSTANTS EqIgnoresMonthSign <- Off
          AddDropsMonthsOnMixedSigns <- Off
INVARIANT AddRefines
INVARIANT MulRefines
INVARIANT EqRefines
INVARIANT HashOK
INVARIANT KeyRefines
INVARIANT Comm
INVARIANT Assoc
INVARIANT Ident
INVARIANT Inv
INVARIANT NFold
INVARIANT Order
INVARIANT ExactByLength
INVARIANT AbsOK
INVARIANT FloorDivOK
INVARIANT ToWeeksOK
INVARIANT BoolOK
INVARIANT StdOK
CONSTANT StdDropsDayCarry <- Off
CHECK_DEADLOCK FALSE
