INIT Init
NEXT Next
INVARIANT Inverts
INVARIANT YearIsCivil
CHECK_DEADLOCK FALSE
