SPECIFICATION Spec
CONSTANTS MultipliedEndForNominal <- Off
          StrictBounds <- Off
          FirstAfterIgnoresEnd <- Off
          MaxTake = 6
          ShiftMovesStoredPoints <- Off
          WinSpecs <- LateWin
          Shifts <- NoShifts
          Intervals <- ExactOnly
          Fmts <- F13
          Ns <- N3
INVARIANT Increasing
INVARIANT Bounded
INVARIANT WindowSound
INVARIANT WindowPrefix
INVARIANT WindowFilter
CHECK_DEADLOCK FALSE
