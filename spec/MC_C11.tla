------------------------------- MODULE MC_C11 -------------------------------
(* C11 on the specification: the stored-form Duration operations refine the abstract value arithmetic and satisfy
   the laws, over all triples of a small universe (week forms, unit forms, mixed signs, respellings). *)
EXTENDS ImplDur
VARIABLES m, a, b, c
U == {Wk(1), Wk(-2), Wk(0), Un(0, 0, 7, 0, 0, 0), Un(0, 0, 0, 168, 0, 0), Un(0, 0, 1, 0, 0, 0), Un(0, 0, 0, 24, 0, 0),
      Un(0, 0, 0, 0, 1440, 0), Un(0, 0, 0, 0, 0, 86400), Un(0, 0, -1, 0, 0, 0), Un(0, 0, 1, -1, 0, 0), Un(0, 0, 0, 23, 0, 0),
      Un(1, 0, 0, 0, 0, 0), Un(0, 12, 0, 0, 0, 0), Un(0, 1, 0, 0, 0, 0), Un(0, -1, 0, 0, 0, 0), Un(0, 0, 30, 0, 0, 0),
      Un(0, 0, 365, 0, 0, 0), Un(1, 1, 1, 1, 1, 1), Un(-1, -1, -1, -1, -1, -1), Un(0, 0, 0, 0, 0, 0), Un(0, 1, 0, 0, 0, -1)}
NoD == [wk |-> FALSE, none |-> TRUE]
Init == m \in Modes /\ a \in U /\ b \in U /\ c = NoD
Next == c = NoD /\ c' \in U /\ UNCHANGED <<m, a, b>>
Ready == c # NoD
\* refinement of the abstract functions
AddRefines == Ready => DurSame(Val(IAdd(a, b)), DurAddFn(Val(a), Val(b)))
MulRefines == Ready => \A n \in -3..3 : DurSame(Val(IMul(a, n)), DurMulFn(Val(a), n))
EqRefines  == Ready => (IEq(a, b) <=> DurEq(Val(a), Val(b)))
HashOK     == Ready => (IEq(a, b) => IHash(a) = IHash(b))
KeyRefines == Ready => IKey(m, a) = DurRough(m, Val(a))
\* the laws, on the implementation-shaped operations
Comm  == Ready => IEq(IAdd(a, b), IAdd(b, a))
Assoc == Ready => IEq(IAdd(IAdd(a, b), c), IAdd(a, IAdd(b, c)))
Ident == Ready => IEq(IAdd(a, Un(0, 0, 0, 0, 0, 0)), a)
Inv   == Ready => LET z == Val(IAdd(a, IMul(a, -1))) IN z.y = 0 /\ z.mo = 0 /\ z.len = Zero3
NFold == Ready => IEq(IMul(a, 3), IAdd(IAdd(a, a), a))
\* ordering by the rough key is a total preorder consistent across the four operators
Lt(x, y) == Lt3(IKey(m, x), IKey(m, y))
Le(x, y) == Le3(IKey(m, x), IKey(m, y))
Order == Ready => /\ (Lt(a, b) \/ Lt(b, a) \/ IKey(m, a) = IKey(m, b))
                  /\ ~(Lt(a, b) /\ Lt(b, a)) /\ (Le(a, b) <=> ~Lt(b, a))
                  /\ (Le(a, b) /\ Le(b, c) => Le(a, c))
\* exact durations: equal, ordered and hashed purely by total length, whatever units spell them
ExactByLength == Ready /\ IsExactI(a) /\ IsExactI(b) => (IEq(a, b) <=> Secs(a) = Secs(b)) /\ (IEq(a, b) <=> IKey(m, a) = IKey(m, b))
\* beyond the listed properties: the remaining operations on the stored form
AbsOK == Ready => LET x == IAbs(a) IN
           /\ IAbs(x) = x /\ x.wk = a.wk
           /\ (IF x.wk THEN x.w >= 0 ELSE x.y >= 0 /\ x.mo >= 0 /\ x.d >= 0 /\ x.h >= 0 /\ x.mi >= 0 /\ x.s >= 0)
FloorDivOK == Ready => \A n \in {1, 2, 3, 7, -1, -2} :
                 LET q == IFloorDiv(a, n)  back == IMul(q, n)
                     rem(x, y) == IF n > 0 THEN (x - y) \in 0..(n - 1) ELSE (x - y) \in (n + 1)..0
                 IN IF a.wk THEN q.wk /\ rem(a.w, back.w)
                    ELSE ~q.wk /\ rem(a.y, back.y) /\ rem(a.mo, back.mo) /\ rem(a.d, back.d) /\ rem(a.h, back.h) /\ rem(a.mi, back.mi) /\ rem(a.s, back.s)
ToWeeksOK == Ready => LET x == IToWeeks(a)  q == IF x.wk THEN x.w ELSE 0 IN
                       (a.wk => x = a) /\ (~a.wk => 7 * q <= a.d /\ a.d < 7 * q + 7 /\ (x.wk <=> q # 0) /\ Secs(x) = <<7 * q, 0, 0>>)
\* the standardize option re-spells the same duration, with the time fields in their ranges; doing it twice changes nothing
StdOK == Ready => LET x == IStd(a) IN
           /\ Val(x) = Val(a) /\ x.wk = a.wk /\ IStd(x) = x /\ IEq(x, a) /\ IHash(x) = IHash(a)
           /\ (~x.wk => x.s \in 0..59 /\ x.mi \in 0..59 /\ x.h \in 0..23 /\ x.y = a.y /\ x.mo = a.mo)
BoolOK == Ready => (IBool(a) <=> a # (IF a.wk THEN Wk(0) ELSE Un(0, 0, 0, 0, 0, 0)))
On == TRUE
Off == FALSE
=============================================================================
