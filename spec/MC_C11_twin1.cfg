INIT Init
NEXT Next
CONSTANTS EqIgnoresMonthSign <- On
          AddDropsMonthsOnMixedSigns <- Off
INVARIANT AddRefines
INVARIANT MulRefines
INVARIANT EqRefines
INVARIANT HashOK
INVARIANT KeyRefines
INVARIANT Comm
INVARIANT Assoc
INVARIANT Ident
INVARIANT Inv
INVARIANT NFold
INVARIANT Order
INVARIANT ExactByLength
CONSTANT StdDropsDayCarry <- Off
CHECK_DEADLOCK FALSE
