------------------------------- MODULE MC_C12 -------------------------------
(* C12 / C13 on the specification: the implementation-shaped recurrence constructor and iterator (ImplRec.tla)
   yield the series the property describes, for anchors at month ends, leap days, day 366 and week 53 in all three
   representations, exact and month/year intervals, n = 1..5 and unbounded, the three notations, four modes. *)
EXTENDS ImplRec, Json
MkP(mm, rep, y, mo, d, sod, z) ==
  LET dt == DateOf(mm, rep, DayNumCal(mm, y, mo, d)) IN
  [rep |-> rep, y |-> dt[1], a |-> dt[2], b |-> dt[3], prec |-> "hms", hh |-> sod \div 3600, mi |-> (sod % 3600) \div 60,
   ss |-> sod % 60, sod |-> sod, us |-> 0, fu |-> 0, frac |-> FALSE, zh |-> z[1], zm |-> z[2], xd |-> 0]
MkD(y, mo, d, h) == [wk |-> FALSE, w |-> 0, y |-> y, mo |-> mo, d |-> d, h |-> h, mi |-> 0, s |-> 0,
                     len |-> Norm3(<<d, h * 3600, 0>>), frac |-> FALSE]
Dates == {<<2019, 12, 30>>, <<2020, 1, 28>>, <<2020, 1, 31>>, <<2020, 2, 28>>, <<2020, 2, 29>>, <<2020, 12, 30>>, <<2021, 1, 3>>, <<2003, 3, 30>>}
ExactIv == {MkD(0, 0, 0, 6), MkD(0, 0, 1, 0), MkD(0, 0, 7, 0), MkD(0, 0, 1, 12)}
NominalIv == {MkD(0, 1, 0, 0), MkD(1, 0, 0, 0), MkD(0, 1, 2, 0), MkD(0, 2, 0, 0)}
ZeroIv == {MkD(0, 0, 0, 0)}
CONSTANTS Intervals, Fmts, Ns, Shifts, WinSpecs
TheShift == MkD(0, 0, 1, 1)
NoShifts == {NoShift}
OneShift == {TheShift}
ShiftOK == ShiftedBy(TheShift)
\* a window specification: <<lo, hi>> in whole days relative to the anchor, Open = no bound on that side
Open == 99999
MkWin(mm, a, ws) == [hasMin |-> ws[1] # Open, min |-> IF ws[1] # Open THEN AddExactTP(mm, a, <<ws[1], 0, 0>>) ELSE NoP,
                     hasMax |-> ws[2] # Open, max |-> IF ws[2] # Open THEN AddExactTP(mm, a, <<ws[2], 0, 0>>) ELSE NoP]
NoWins == {<<Open, Open>>}
SomeWins == {<<Open, Open>>, <<0, Open>>, <<1, Open>>, <<Open, 2>>, <<Open, 0>>, <<-3, -1>>, <<1, 3>>, <<Open, -1>>, <<-9, 9>>, <<-2, Open>>}
ValidIn(mm, dte) == ValidCal(mm, dte[1], dte[2], dte[3])
Init ==
  /\ m \in Modes
  /\ \E dte \in Dates, rep \in {"cal", "ord", "week"}, iv \in Intervals, fmt \in Fmts, n \in Ns, ws \in WinSpecs :
       /\ ValidIn(m, dte)
       /\ LET a == MkP(m, rep, dte[1], dte[2], dte[3], 82800, <<1, 0>>) IN
          inp = [fmt |-> fmt, n |-> n, a |-> a, s |-> AddDurTP(m, a, MkD(0, 0, 1, 1)), d |-> iv, w |-> MkWin(m, a, ws)]
  /\ r = [n |-> 0] /\ pc = "new" /\ cur = NoP /\ out = << >>
  /\ sh \in Shifts /\ out1 = << >>
Spec == Init /\ [][Next]_vars
\* C13: get_first_after of the constructed object agrees with the iterated series (bounded, exact interval, forward)
Probes == {out[i] : i \in 1..Len(out)} \cup {AddExactTP(m, out[i], <<0, 1, 0>>) : i \in 1..Len(out)}
          \cup {AddExactTP(m, out[i], <<-1, 0, 0>>) : i \in 1..Len(out)}
FirstAfterAgrees ==
  (pc = "stopped" /\ r.hasDur /\ DurExact(r.dur) /\ r.hasStart /\ Len(out) >= 1) =>
    \A p \in Probes :
      LET later == {i \in 1..Len(out) : Lt3(Inst(m, p), Inst(m, out[i]))}
          res == FirstAfterImpl(p)
      IN IF later = {} THEN ~res[1]
         ELSE res[1] /\ Inst(m, res[2]) = Inst(m, out[CHOOSE i \in later : \A j \in later : i <= j])
EmitGen == pc = "new" /\ out1 = << >> /\ sh = NoShift =>
             PrintT(<<"GEN", ToJson(<<m, inp.fmt, inp.n, inp.a.rep, inp.a.y, inp.a.a, inp.a.b, inp.d.y, inp.d.mo, inp.d.d, inp.d.h>>)>>)
OnlyInit == pc = "new"
Off == FALSE
On == TRUE
AllIv == ExactIv \cup NominalIv \cup ZeroIv
ExactOnly == ExactIv \cup ZeroIv
F134 == {1, 3, 4}
F13 == {1, 3}
F4 == {4}
NsAll == {0, 1, 2, 3, 5}
NsBounded == {2, 3, 5}
N3 == {3}
LateWin == {<<1, Open>>}
=============================================================================
