INIT Init
NEXT Next
CONSTANTS Sods <- SodsFull
          Normalise24 <- On
          BorrowSkipsZeroHour <- Off
INVARIANT CmpRefines
INVARIANT HashConsistent
INVARIANT SubRefines
INVARIANT Antisymmetric
CHECK_DEADLOCK FALSE
