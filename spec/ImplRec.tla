------------------------------ MODULE ImplRec ------------------------------
(***************************************************************************)
(* IMPLEMENTATION-SHAPED layer for recurrences (C12, C13): the             *)
(* TimeRecurrence constructor as the library classifies its arguments and  *)
(* derives the missing end/start, and __iter__ / get_next / get_prev /     *)
(* _get_is_in_bounds as an iterator state machine, one action per step.    *)
(* Addition of the interval is the abstract AddDurTP of Ops.tla (the       *)
(* arithmetic itself is C01/C05's business); what is modelled here is the  *)
(* control: which end is derived how, the bounds test, the stop condition. *)
(*                                                                         *)
(* Knobs (design faults TLC must reject, or known behaviour it must show): *)
(*   MultipliedEndForNominal  the pre-0248854 constructor: end = start +   *)
(*                            (n-1) * interval also for month/year units   *)
(*   StrictBounds             _get_is_in_bounds with < instead of <=       *)
(*   FirstAfterIgnoresEnd     the pre-b44cc4b get_first_after              *)
(*                                                                         *)
(* Beyond the listed properties: the optional min_point / max_point window *)
(* (inp.w) is part of _get_is_in_bounds exactly as in the code, so the     *)
(* iterator STOPS at the first point outside the window (it does not skip  *)
(* it): a window that opens after the start yields nothing.  WindowPrefix  *)
(* states that behaviour; WindowFilter is the reading the docstring        *)
(* suggests ("a subset of valid date-times") and is shown NOT to hold by   *)
(* MC_Win_filter.cfg - a named deviation, not one of the twenty properties.*)
(***************************************************************************)
EXTENDS Ops, Sequences

CONSTANTS MultipliedEndForNominal, StrictBounds, FirstAfterIgnoresEnd, MaxTake,
          ShiftMovesStoredPoints     \* C14 knob: __add__ shifts the stored (derived) points instead of rebuilding from the anchor

VARIABLES m, inp,   \* mode; the arguments: [fmt, n (0 = none), a (anchor), s (second point), d (interval),
                    \*   w (window: [hasMin, min, hasMax, max], the min_point / max_point keywords)]
          r,        \* the constructed object: [n, hasStart, start, hasEnd, end, hasDur, dur]
          pc,       \* "new" | "iter" | "stopped" | "abandoned"
          cur,      \* the iterator's current point (valid while pc = "iter")
          out,      \* points yielded so far
          sh,       \* C14: a shift duration still to be applied ([none |-> TRUE] when there is none)
          out1      \* C14: the series of the unshifted recurrence, kept for comparison after the shift
vars == <<m, inp, r, pc, cur, out, sh, out1>>
NoShift == [none |-> TRUE]

DurMul(d, k) == [d EXCEPT !.y = d.y * k, !.mo = d.mo * k, !.len = Mul3(d.len, k)]
ExactDiff(a, b) == [y |-> 0, mo |-> 0, len |-> Minus3(Inst(m, a), Inst(m, b)), frac |-> FALSE]
RECURSIVE Repeated(_, _, _)
Repeated(p, d, k) == IF k = 0 THEN p ELSE Repeated(AddDurTP(m, p, d), d, k - 1)
NoP == [rep |-> "none"]

\* TimeRecurrence.__init__
Construct ==
  /\ pc = "new"
  /\ LET n == inp.n  a == inp.a  d == inp.d IN
     r' = CASE inp.fmt = 1 ->
               (IF n = 1 \/ Inst(m, a) = Inst(m, inp.s)
                THEN [n |-> 1, hasStart |-> TRUE, start |-> a, hasEnd |-> TRUE, end |-> a, hasDur |-> FALSE, dur |-> d]
                ELSE LET dd == ExactDiff(inp.s, a) IN
                     [n |-> n, hasStart |-> TRUE, start |-> a, hasEnd |-> n > 0,
                      end |-> IF n > 0 THEN AddDurTP(m, a, DurMul(dd, n - 1)) ELSE a, hasDur |-> TRUE, dur |-> dd])
            [] inp.fmt = 3 ->
               (IF n = 1 \/ DurIsZero(d)
                THEN [n |-> 1, hasStart |-> TRUE, start |-> a, hasEnd |-> TRUE, end |-> a, hasDur |-> FALSE, dur |-> d]
                ELSE [n |-> n, hasStart |-> TRUE, start |-> a, hasEnd |-> n > 0,
                      end |-> IF n = 0 THEN a
                              ELSE IF DurExact(d) \/ MultipliedEndForNominal THEN AddDurTP(m, a, DurMul(d, n - 1))
                              ELSE Repeated(a, d, n - 1),
                      hasDur |-> TRUE, dur |-> d])
            [] OTHER ->
               (IF n = 1 \/ DurIsZero(d)
                THEN [n |-> 1, hasStart |-> TRUE, start |-> a, hasEnd |-> TRUE, end |-> a, hasDur |-> FALSE, dur |-> d]
                ELSE [n |-> n, hasStart |-> n > 0, start |-> IF n > 0 THEN AddDurTP(m, a, DurNeg(DurMul(d, n - 1))) ELSE a,
                      hasEnd |-> TRUE, end |-> a, hasDur |-> TRUE, dur |-> d])
  /\ pc' = "iter"
  /\ cur' = IF r'.hasStart THEN r'.start ELSE r'.end
  /\ UNCHANGED <<m, inp, out, sh, out1>>

Leq(x, y) == IF StrictBounds THEN Lt3(x, y) ELSE Le3(x, y)
NoWin == [hasMin |-> FALSE, min |-> NoP, hasMax |-> FALSE, max |-> NoP]
InWin(p) == /\ (inp.w.hasMin => Leq(Inst(m, inp.w.min), Inst(m, p)))
            /\ (inp.w.hasMax => Leq(Inst(m, p), Inst(m, inp.w.max)))
InBase(p) == /\ (r.hasStart => Leq(Inst(m, r.start), Inst(m, p)))
             /\ (r.hasEnd => Leq(Inst(m, p), Inst(m, r.end)))
InBounds(p) == InBase(p) /\ InWin(p)

\* one step of __iter__: yield the current point if it is in bounds and move on, else stop
IterStep ==
  /\ pc = "iter"
  /\ IF ~InBounds(cur) THEN pc' = "stopped" /\ UNCHANGED <<cur, out>>
     ELSE /\ out' = Append(out, cur)
          /\ IF r.n = 1 \/ ~r.hasDur THEN pc' = "stopped" /\ UNCHANGED cur
             ELSE IF Len(out') >= MaxTake /\ r.n = 0 THEN pc' = "abandoned" /\ UNCHANGED cur
             ELSE /\ cur' = IF r.hasStart THEN AddDurTP(m, cur, r.dur) ELSE AddDurTP(m, cur, DurNeg(r.dur))
                  /\ UNCHANGED pc
  /\ UNCHANGED <<m, inp, r, sh, out1>>

\* TimeRecurrence.__add__(Duration): rebuild through the constructor from the moved anchor(s) - same n, same interval
\* (a single-point duration/end recurrence is rebuilt with an empty interval, 5a8d498)
ShiftAct ==
  /\ pc \in {"stopped", "abandoned"} /\ sh # NoShift
  /\ out1' = out /\ out' = << >> /\ sh' = NoShift
  /\ IF ShiftMovesStoredPoints
     THEN /\ r' = [r EXCEPT !.start = IF r.hasStart THEN AddDurTP(m, r.start, sh) ELSE r.start,
                            !.end = IF r.hasEnd THEN AddDurTP(m, r.end, sh) ELSE r.end]
          /\ inp' = [inp EXCEPT !.a = AddDurTP(m, inp.a, sh), !.s = IF inp.fmt = 1 THEN AddDurTP(m, inp.s, sh) ELSE inp.s]
          /\ pc' = "iter" /\ cur' = IF r'.hasStart THEN r'.start ELSE r'.end
     ELSE /\ inp' = [inp EXCEPT !.a = AddDurTP(m, inp.a, sh), !.s = IF inp.fmt = 1 THEN AddDurTP(m, inp.s, sh) ELSE inp.s]
          /\ pc' = "new" /\ UNCHANGED <<r, cur>>
  /\ UNCHANGED m

Next == Construct \/ IterStep \/ ShiftAct
Terminating == pc \in {"stopped", "abandoned"}

\* ---- C12 -------------------------------------------------------------------------------------
Increasing == \A i \in 1..(Len(out) - 1) :
                 IF r.hasStart THEN Lt3(Inst(m, out[i]), Inst(m, out[i + 1])) ELSE Lt3(Inst(m, out[i + 1]), Inst(m, out[i]))
\* a bounded recurrence yields exactly n points including its anchor; a single-point one exactly the anchor
CountAndAnchor ==
  pc = "stopped" =>
    LET single == inp.n = 1 \/ (inp.fmt # 1 /\ DurIsZero(inp.d)) \/ (inp.fmt = 1 /\ Inst(m, inp.a) = Inst(m, inp.s)) IN
    IF single THEN Len(out) = 1 /\ SameTP(out[1], inp.a)
    ELSE /\ inp.n > 0 /\ Len(out) = inp.n
         /\ \E i \in 1..Len(out) : Inst(m, out[i]) = Inst(m, inp.a)
\* an unbounded series does not end
NoEarlyStop == pc = "stopped" => (inp.n > 0 \/ r.n = 1)
FirstIsAnchor == Len(out) >= 1 /\ (inp.fmt # 4 \/ inp.n = 0 \/ r.n = 1) => SameTP(out[1], inp.a)
\* termination: the iterator stops or is abandoned within MaxTake + n + 2 steps (checked as a bound on Len(out))
Bounded == Len(out) <= (IF inp.n > 0 THEN inp.n ELSE MaxTake)

\* ---- windows (min_point / max_point; beyond the listed properties) -------------------------------------------
\* the series the recurrence would yield without its window, as far as the model looks (MaxTake when unbounded)
BaseLen == IF r.n > 0 THEN r.n ELSE MaxTake
BaseAt(i) == IF r.n = 1 \/ ~r.hasDur THEN (IF r.hasStart THEN r.start ELSE r.end)
             ELSE IF r.hasStart THEN Repeated(r.start, r.dur, i - 1) ELSE Repeated(r.end, DurNeg(r.dur), i - 1)
WindowSound == \A i \in 1..Len(out) : InWin(out[i])
\* as the code does: the yielded points are the longest leading run of the unwindowed series inside the window
WindowPrefix ==
  pc \in {"stopped", "abandoned"} =>
    /\ \A i \in 1..Len(out) : SameTP(out[i], BaseAt(i))
    /\ (pc = "stopped" /\ Len(out) < BaseLen /\ ~(r.n = 1 \/ ~r.hasDur)) => ~(InWin(BaseAt(Len(out) + 1)) /\ InBase(BaseAt(Len(out) + 1)))
\* the docstring's reading: every unwindowed member inside the window is yielded (does NOT hold: see MC_Win_filter.cfg)
WindowFilter ==
  (pc = "stopped" /\ r.n > 0) =>
    \A i \in 1..BaseLen : (InWin(BaseAt(i)) /\ InBase(BaseAt(i))) => \E j \in 1..Len(out) : SameTP(out[j], BaseAt(i))

\* ---- C14: after a shift by an exact duration the series is the old one moved by exactly that duration -------------
ShiftedBy(d) ==
  (pc \in {"stopped", "abandoned"} /\ sh = NoShift /\ Len(out1) > 0) =>
     /\ Len(out) = Len(out1)
     /\ (r.n = 1 \/ ~r.hasDur \/ DurExact(r.dur)) => \A i \in 1..Min2(Len(out), Len(out1)) : Inst(m, out[i]) = Plus3(Inst(m, out1[i]), d.len)

\* ---- C13: get_first_after on the constructed object, exact intervals (the divmod shortcut) ------------------
FirstAfterImpl(p) ==
  IF ~InBounds(p) THEN (IF Lt3(Inst(m, p), Inst(m, r.start)) THEN <<TRUE, r.start>> ELSE <<FALSE, p>>)
  ELSE LET since == Minus3(Inst(m, p), Inst(m, r.start))
           \* remainder of the distance modulo the interval, in seconds (whole-second universe)
           iv == r.dur.len[1] * DAY + r.dur.len[2]
           ds == since[1] * DAY + since[2]
           nxt == AddExactTP(m, p, <<0, iv - (ds % iv), 0>>)
       IN IF FirstAfterIgnoresEnd \/ InBounds(nxt) THEN <<TRUE, nxt>> ELSE <<FALSE, p>>
=============================================================================
