SPECIFICATION Spec
CONSTANTS OrdinalCarryUsesNextYear <- Off
          WeekCarryUsesNextYear <- Off
          BackwardOrdinalUsesThisYear <- Off
INVARIANT Refines
INVARIANT ChainNormalises
INVARIANT Variant
CHECK_DEADLOCK FALSE
