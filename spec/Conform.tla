------------------------------ MODULE Conform ------------------------------
(***************************************************************************)
(* Trace specification: validates executions recorded from the real        *)
(* library against the abstract layer.                                     *)
(*                                                                         *)
(* State: l (position in the trace), mode (the calendar mode the           *)
(* specification believes is active - changed only by SetMode events),     *)
(* dig (digest of every value of the current pool, C16), it (the open      *)
(* recurrence iterator), ser (the series the last exhausted iterator       *)
(* yielded), zone (the system zone configuration in force), rej (number of *)
(* rejected events so far).                                                *)
(*                                                                         *)
(* One disjunct per event kind.  Verdicts are total: a rejected event      *)
(* prints one REJECT line naming the failing clause, the state is          *)
(* re-synchronised from the logged values and validation continues.        *)
(* The run is accepted only if the DONE line reports every event consumed. *)
(***************************************************************************)
EXTENDS Ops, Text, Json, IOUtils, TLCExt, FiniteSets

Tr == JsonDeserialize(IOEnv.TRACE_FILE)
N  == Len(Tr)

VARIABLES l, mode, dig, it, ser, zone, rej
vars == <<l, mode, dig, it, ser, zone, rej>>

NoIt  == [open |-> FALSE]
Zone0 == [tz |-> 0, alt |-> 0, daylight |-> 0, isdst |-> 0]

Init == /\ l = 1 /\ mode = "gregorian" /\ dig = <<>> /\ it = NoIt
        /\ ser = <<>> /\ zone = Zone0 /\ rej = 0

\* verdict of one event: TRUE always (so the behaviour continues); prints when rejected
Judge(ev, clause) ==
  IF clause = "ok" THEN TRUE
  ELSE PrintT(<<"REJECT", l, ev.cid, ev.op, clause>>)
RejInc(clause) == IF clause = "ok" THEN rej ELSE rej + 1

\* ---------------------------------------------------------------------- clauses per event kind
\* C03: one calendar year of conversion rows
\* row = <<mo, d, doy, wy, w, wd,  c2o_y, c2o_doy,  c2w_y, c2w_w, c2w_d,  o2c_y, o2c_m, o2c_d,
\*         o2w_y, o2w_w, o2w_d,  w2c_y, w2c_m, w2c_d,  w2o_y, w2o_doy>>
RowClause(m, y, k, r) ==
  \* inputs are judged in the forward direction (closed form); MC_C03 shows the forward maps are bijections
  LET n == YearStart(m, y) + k - 1 IN
     IF ~(ValidCal(m, y, r[1], r[2]) /\ DayNumCal(m, y, r[1], r[2]) = n /\ r[3] = k) THEN "row-inputs-calendar"
     ELSE IF ~(ValidWeek(m, r[4], r[5], r[6]) /\ DayNumWeek(m, r[4], r[5], r[6]) = n) THEN "row-inputs-week"
     ELSE IF ~(r[7] = y /\ r[8] = k) THEN "calendar->ordinal"
     ELSE IF ~(r[9] = r[4] /\ r[10] = r[5] /\ r[11] = r[6]) THEN "calendar->week"
     ELSE IF ~(r[12] = y /\ r[13] = r[1] /\ r[14] = r[2]) THEN "ordinal->calendar"
     ELSE IF ~(r[15] = r[4] /\ r[16] = r[5] /\ r[17] = r[6]) THEN "ordinal->week"
     ELSE IF ~(r[18] = y /\ r[19] = r[1] /\ r[20] = r[2]) THEN "week->calendar"
     ELSE IF ~(r[21] = y /\ r[22] = k) THEN "week->ordinal"
     ELSE "ok"
\* (no recursion over logged sequences: TLC re-evaluates lazily bound sequence arguments at every level)
RowsClause(m, y, rows) ==
  IF \A k \in 1..Len(rows) : RowClause(m, y, k, rows[k]) = "ok" THEN "ok"
  ELSE LET k == CHOOSE j \in 1..Len(rows) : RowClause(m, y, j, rows[j]) # "ok" IN RowClause(m, y, k, rows[k])
CalYearClause(m, ev) ==
  LET y == ev.y IN
  IF ev.diy # DaysInYear(m, y) THEN "days-in-year"
  ELSE IF ev.leap # (DaysInYear(m, y) > DaysInYear(m, 2001)) THEN "is-leap-year"
  ELSE IF ev.wiy # WeeksInYear(m, y) THEN "weeks-in-year"
  ELSE IF ev.mlens # MonthLens(m, y) THEN "days-in-month"
  ELSE IF ev.wsc # CalOf(m, WeekYearStart(m, y)) THEN "week-year-start-calendar"
  ELSE IF ev.wso # OrdOf(m, WeekYearStart(m, y)) THEN "week-year-start-ordinal"
  ELSE IF ev.since1 # DaysSince1AD(m, y) THEN "days-since-1-ad"
  ELSE IF Len(ev.rows) # DaysInYear(m, y) THEN "row-count"
  ELSE RowsClause(m, y, ev.rows)

\* C03: days-in-year-range queries  q = <<a, b, result>>
RangeClause(m, qs) ==
  IF \A k \in 1..Len(qs) : qs[k][3] = DaysInYearRange(m, qs[k][1], qs[k][2]) THEN "ok" ELSE "days-in-year-range"

\* C03: object-level conversions of one time point: to_*_date results and get_* accessors
ConvClause(m, ev) ==
  LET p == ev.p  n == LocalDay(m, p)
      c == CalOf(m, n)  o == OrdOf(m, n)  w == WeekOf(m, n)
      okc(q) == q.rep = "cal" /\ <<q.y, q.a, q.b>> = c
      oko(q) == q.rep = "ord" /\ <<q.y, q.a>> = o
      okw(q) == q.rep = "week" /\ <<q.y, q.a, q.b>> = w
      same(q) == q.sod = p.sod /\ q.us = p.us /\ SameZone(p, q)
  IN IF ~ValidTP(m, p) THEN "operand-invalid"
     ELSE IF ~(okc(ev.tc) /\ same(ev.tc)) THEN "to_calendar_date"
     ELSE IF ~(oko(ev.to) /\ same(ev.to)) THEN "to_ordinal_date"
     ELSE IF ~(okw(ev.tw) /\ same(ev.tw)) THEN "to_week_date"
     ELSE IF ev.gc # c THEN "get_calendar_date"
     ELSE IF ev.go # o THEN "get_ordinal_date"
     ELSE IF ev.gw # w THEN "get_week_date"
     ELSE IF Len(ev.sf) > 0 /\ SubSeq(ev.sf, 1, 4) # <<c[1], c[2], c[3], o[2]>> THEN "formatted-civil-date-disagrees"
     ELSE IF Len(ev.sf) = 6 /\ SubSeq(ev.sf, 5, 6) # <<w[1], w[2]>> THEN "formatted-week-disagrees"
     ELSE IF Len(ev.fb) = 4 /\ ev.fb # <<Weekday(n), c[3], c[2], c[1]>> THEN "ext:fallback-strftime-civil-date"
     ELSE "ok"

\* C01 / C05: p + d (how = "add": p + d, "radd": d + p, "sub": p - (-d) i.e. the logged d is the negated operand)
AddClause(m, ev) ==
  IF ~ev.ok THEN "raised-" \o ev.cls
  ELSE IF ~ValidTP(m, ev.p) THEN "operand-invalid"
  ELSE IF DurExact(ev.d) THEN AddExactClause(m, ev.p, ev.d, ev.q)
  ELSE AddDurClause(m, ev.p, ev.d, ev.q)

\* C02: the six operators, hashes of both operands (small ids: equal hash <=> equal id), sign of a - b
CmpClause(m, ev) ==
  LET v == CmpVector(m, ev.a, ev.b) IN
  IF ~ev.ok THEN "raised-" \o ev.cls
  ELSE IF ~(ValidTP(m, ev.a) /\ ValidTP(m, ev.b)) THEN "operand-invalid"
  ELSE IF ev.r[1] # v[1] THEN "eq"
  ELSE IF ev.r[2] # v[2] THEN "ne"
  ELSE IF ev.r[3] # v[3] THEN "lt"
  ELSE IF ev.r[4] # v[4] THEN "le"
  ELSE IF ev.r[5] # v[5] THEN "gt"
  ELSE IF ev.r[6] # v[6] THEN "ge"
  ELSE IF v[1] /\ ev.ha # ev.hb THEN "equal-but-hash-differs"
  ELSE "ok"

\* C02: a pool sorted by the library, its set size, and hash ids: order and distinctness by instant
SortedFrom(m, s) == \A k \in 1..(Len(s) - 1) : Le3(Inst(m, s[k]), Inst(m, s[k + 1]))
PoolClause(m, ev) ==
  LET insts == {Inst(m, ev.pool[i]) : i \in 1..Len(ev.pool)} IN
  IF ~ev.ok THEN "raised-" \o ev.cls
  ELSE IF \E i \in 1..Len(ev.pool) : ~ValidTP(m, ev.pool[i]) THEN "operand-invalid"
  ELSE IF Len(ev.sorted) # Len(ev.pool) THEN "sorted-length"
  ELSE IF ~SortedFrom(m, ev.sorted) THEN "sorted-order"
  ELSE IF ev.setsize # Cardinality(insts) THEN "set-size"
  ELSE IF \E i, j \in 1..Len(ev.pool) :
            Inst(m, ev.pool[i]) = Inst(m, ev.pool[j]) /\ ev.hashes[i] # ev.hashes[j] THEN "equal-but-hash-differs"
  ELSE IF \E i, j, k \in 1..Len(ev.pool) :
            ev.lt[i][j] /\ ev.lt[j][k] /\ ~ev.lt[i][k] THEN "transitivity"
  ELSE IF \E i, j \in 1..Len(ev.pool) :
            ev.lt[i][j] # Lt3(Inst(m, ev.pool[i]), Inst(m, ev.pool[j])) THEN "lt-matrix"
  ELSE "ok"

\* C04: d = a - b
SubTPClause(m, ev) ==
  IF ~ev.ok THEN "raised-" \o ev.cls
  ELSE IF ~(ValidTP(m, ev.a) /\ ValidTP(m, ev.b)) THEN "operand-invalid"
  ELSE LET c == SubClause(m, ev.a, ev.b, ev.d) IN
       IF c # "ok" THEN c
       \* sign of the difference agrees with the order of the instants (C02)
       ELSE IF Cmp3(ev.d.len, Zero3) # Cmp3(Inst(m, ev.a), Inst(m, ev.b)) /\ ~(ev.a.frac \/ ev.b.frac) THEN "sign"
       ELSE "ok"

\* C04: identities; every side is a recorded result
\*   neg: (a-b) == -(b-a) [eqneg];  back: b + (a-b) == a [eqback, with the recorded sum];  rt: (p+d)-p == d
\* The library's == on the two sides is demanded when no fractional unit is involved anywhere (then its float
\* arithmetic is exact); with fractions the two sides must agree on the timeline to within 2 us (C01's tolerance).
IdentClause(m, ev) ==
  LET fr == ev.a.frac \/ ev.b.frac \/ ev.dab.frac \/ ev.dba.frac \/ ev.back.frac IN
  IF ~ev.ok THEN "raised-" \o ev.cls
  ELSE IF ~fr /\ ~ev.eqneg THEN "(a-b)==-(b-a)"
  ELSE IF ~DurNear(ev.dab, [y |-> 0, mo |-> 0, len |-> Neg3(ev.dba.len)]) THEN "(a-b)=-(b-a)-lengths"
  ELSE IF ~fr /\ ~ev.eqback THEN "b+(a-b)==a"
  ELSE IF ~Near3(Inst(m, ev.back), Inst(m, ev.a), IF fr THEN 2 ELSE 0) THEN "b+(a-b)=a-instants"
  ELSE "ok"
RoundTripClause(m, ev) ==
  LET fr == ev.p.frac \/ ev.d.frac \/ ev.r.frac IN
  IF ~ev.ok THEN "raised-" \o ev.cls
  ELSE IF ~fr /\ ~ev.eq THEN "(p+d)-p==d"
  ELSE IF ~(IF fr THEN DurNear(ev.r, ev.d) ELSE DurSame(ev.r, ev.d)) THEN "(p+d)-p=d-lengths"
  ELSE "ok"

\* C06: re-expression in another offset, with ==, hash, difference of original and result
\* (a dump whose re-zoned year cannot be written with the format's year digits may be refused: the library
\*  cannot express the expected output, so the case is outside the quantifier)
Pow10(k) == CASE k = 0 -> 1 [] k = 1 -> 10 [] k = 2 -> 100 [] k = 3 -> 1000 [] OTHER -> 10000
YearDumpable(y, xd) == IF xd = 0 THEN y \in 0..9999 ELSE Abs(y) <= 10000 * Pow10(xd) - 1
RezonedYear(m, p, zh, zm) ==
  DateOf(m, p.rep, Plus3(Local(m, p), <<0, ZoneSec(zh, zm) - ZoneSec(p.zh, p.zm), 0>>)[1])[1]
ZoneClause(m, ev) ==
  IF ~ValidTP(m, ev.p) THEN "operand-invalid"
  ELSE IF ~ev.ok THEN
       (IF ev.via = "dump" /\ ev.cls = "TimePointDumperBoundsError" /\ ~YearDumpable(RezonedYear(m, ev.p, ev.zh, ev.zm), ev.p.xd)
        THEN "ok" ELSE "raised-" \o ev.cls)
  ELSE LET c == ToZoneClause(m, ev.p, ev.zh, ev.zm, ev.q) IN
       IF c # "ok" THEN c
       ELSE IF ~ev.eq THEN "not-equal-to-original"
       ELSE IF ~ev.heq /\ ~(ev.p.frac \/ ev.q.frac) THEN "hash-differs-from-original"
       ELSE IF ~Near3(ev.diff.len, Zero3, IF ev.p.frac \/ ev.q.frac THEN 2 ELSE 0) \/ ev.diff.y # 0 \/ ev.diff.mo # 0 THEN "difference-not-zero"
       ELSE "ok"

\* C11: all laws of duration arithmetic on one triple (a, b, c) and multiplier n; every side is a recorded result
DurLawsClause(m, ev) ==
  LET a == ev.a  b == ev.b  c == ev.c  n == ev.n
      fr == a.frac \/ b.frac \/ c.frac
      Same(x, e) == IF fr THEN DurNear(x, e) ELSE DurSame(x, e)
      sum == DurAddFn(a, b)
      cv == DurCmpVector(m, a, b)
      eqab == DurEq(a, b)
  IN IF ~Same(ev.ab, sum) THEN "a+b"
     ELSE IF ~Same(ev.ba, sum) THEN "b+a"
     ELSE IF ~fr /\ ~ev.comm THEN "a+b==b+a"
     ELSE IF ~Same(ev.l, DurAddFn(sum, c)) THEN "(a+b)+c"
     ELSE IF ~Same(ev.r, DurAddFn(sum, c)) THEN "a+(b+c)"
     ELSE IF ~fr /\ ~ev.assoc THEN "(a+b)+c==a+(b+c)"
     ELSE IF ~Same(ev.a0, a) \/ (~fr /\ ~ev.ident) THEN "identity"
     ELSE IF ~(ev.inv.y = 0 /\ ev.inv.mo = 0 /\ Near3(ev.inv.len, Zero3, IF fr THEN 2 ELSE 0)) THEN "d+(-1*d)-not-empty"
     ELSE IF ~fr /\ ~ev.invempty THEN "d+(-1*d)-truthy"
     ELSE IF ~Same(ev.na, DurMulFn(a, n)) THEN "n*d"
     ELSE IF ~Same(ev.an, DurMulFn(a, n)) THEN "d*n"
     ELSE IF ~Same(ev.nsum, DurMulFn(a, n)) THEN "n-fold-sum"
     ELSE IF ~fr /\ ~ev.muleq THEN "n*d==n-fold-sum"
     ELSE IF ~Same(ev.nsum2, DurMulFn(a, n)) THEN "n-fold-sum-with-+="
     ELSE IF ~DurSame(ev.aafter, a) THEN "operand-changed-by-+="
     ELSE IF ~Same(ev.amb, DurAddFn(a, DurMulFn(b, -1))) THEN "a-b"
     ELSE IF ~Same(ev.apnb, DurAddFn(a, DurMulFn(b, -1))) THEN "a+(-1*b)"
     ELSE IF ~fr /\ ~ev.subeq THEN "a-b==a+(-1*b)"
     ELSE IF ~fr /\ ev.cmp[1] # eqab THEN "=="
     ELSE IF ~fr /\ ev.cmp[2] # ~eqab THEN "!="
     ELSE IF ~fr /\ eqab /\ ev.ha # ev.hb THEN "equal-but-hash-differs"
     ELSE IF ~fr /\ ev.cmp[3] # cv[1] THEN "<"
     ELSE IF ~fr /\ ev.cmp[4] # cv[2] THEN "<="
     ELSE IF ~fr /\ ev.cmp[5] # cv[3] THEN ">"
     ELSE IF ~fr /\ ev.cmp[6] # cv[4] THEN ">="
     \* the library's own verdicts must be consistent whatever the operands (fractions included): equal => same hash, not ordered
     ELSE IF ev.cmp[1] /\ ev.ha # ev.hb THEN "library-equal-but-hash-differs"
     ELSE IF ev.cmp[1] = ev.cmp[2] THEN "==/!=-inconsistent"
     ELSE IF ~fr /\ ev.cmp[1] /\ (ev.cmp[3] \/ ev.cmp[5]) THEN "equal-and-strictly-ordered"      \* (decimal components: order is within float tolerance)
     ELSE IF ev.cmp[3] /\ ev.cmp[5] THEN "<-and->"
     ELSE IF ev.cmp[4] # (ev.cmp[3] \/ ~ev.cmp[5]) \/ ev.cmp[6] # (ev.cmp[5] \/ ~ev.cmp[3]) THEN "<=/>=-inconsistent"
     ELSE IF ~Same(ev.tod, a) \/ ev.tod.wk THEN "to_days"
     \* accessors: is_exact, get_seconds (exact length; rough length for nominal durations), get_days_and_seconds (rough, 0 <= s < 86400)
     ELSE IF ev.isexact # DurExact(a) THEN "is_exact"
     ELSE IF ~Near3(ev.gs, IF DurExact(a) THEN a.len ELSE DurRough(m, a), IF fr THEN 2 ELSE 0) THEN "get_seconds"
     ELSE IF ~a.wk /\ ~(Near3(ev.das, DurRough(m, a), IF fr THEN 2 ELSE 0) /\ ev.dasnorm) THEN "get_days_and_seconds"
     \* every value computed along the way: equal durations hash equally (vals[k] = <<projection, hash id>>)
     ELSE IF ~fr /\ \E i, j \in 1..Len(ev.vals) : DurEq(ev.vals[i][1], ev.vals[j][1]) /\ ev.vals[i][2] # ev.vals[j][2] THEN "equal-values-hash-differently"
     ELSE "ok"

\* Beyond the listed properties: the remaining Duration operations (//, abs, to_weeks, bool) against the stored-form
\* model of ImplDur.tla; integer components only.  All clauses are ext: (reported, never an alarm).
ID == INSTANCE ImplDur WITH EqIgnoresMonthSign <- FALSE, AddDropsMonthsOnMixedSigns <- FALSE, StdDropsDayCarry <- FALSE
DurExtClause(ev) ==
  IF ~ev.ok THEN "ext:raised-" \o ev.cls
  \* (C11 proper, not ext: the empty duration is the identity of a value obtained from to_weeks() as of any other Duration)
  ELSE IF ~ev.twid THEN "identity-law-on-to_weeks-result"
  ELSE IF ~ID!Same8(ev.fd, ID!IFloorDiv(ev.a, ev.n)) THEN "ext:floordiv"
  ELSE IF ~ID!Same8(ev.ab, ID!IAbs(ev.a)) THEN "ext:abs"
  ELSE IF ev.hastw /\ ~ID!Same8(ev.tw, ID!IToWeeks(ev.a)) THEN "ext:to_weeks"
  ELSE IF ev.bl # ID!IBool(ev.a) THEN "ext:bool"
  ELSE "ok"

\* C11: Duration(..., standardize=True) carries seconds -> minutes -> hours -> days: another spelling of the SAME duration (a = the
\* duration built without the option, s = with it)
DurStdClause(ev) ==
  IF ~ev.ok THEN "raised-" \o ev.cls
  ELSE IF ~DurSame(ev.s, ev.a) THEN "standardize-changed-the-duration"
  ELSE IF ~ev.eq THEN "standardized-spelling-not-equal"
  ELSE IF ~ev.hs THEN "standardized-spelling-hashes-differently"
  ELSE IF ev.lt \/ ev.gt THEN "standardized-spelling-strictly-ordered"
  \* (extended specification: the stored form is the carried one - ImplDur!IStd, checked against the laws by MC_C11's StdOK)
  ELSE IF ~ID!Same8(ev.s, ID!IStd(ev.a)) THEN "ext:standardize-stored-form"
  ELSE "ok"
\* C11 beyond what a double holds: two all-integer durations whose exact lengths differ by ev.delta seconds (the common base, far
\* beyond 2^53 s, is not needed to state the verdicts - and would not fit TLC's integers): == iff delta = 0, order by the sign
DurBigClause(ev) ==
  IF ~ev.ok THEN "raised-" \o ev.cls
  ELSE IF ev.cmp[1] # (ev.delta = 0) THEN "==-on-huge-integer-durations"
  ELSE IF ev.cmp[2] # (ev.delta # 0) THEN "!=-on-huge-integer-durations"
  ELSE IF ev.cmp[3] # (ev.delta > 0) THEN "<-on-huge-integer-durations"
  ELSE IF ev.cmp[4] # (ev.delta >= 0) THEN "<=-on-huge-integer-durations"
  ELSE IF ev.cmp[5] # (ev.delta < 0) THEN ">-on-huge-integer-durations"
  ELSE IF ev.cmp[6] # (ev.delta <= 0) THEN ">=-on-huge-integer-durations"
  ELSE IF ev.delta = 0 /\ ~ev.hs THEN "equal-huge-durations-hash-differently"
  ELSE IF ev.diff # ev.delta THEN "difference-of-huge-integer-durations"
  ELSE "ok"

\* ---------------------------------------------------------------------- C12 / C13 / C14: recurrences
\* inp = [fmt, n (0 = unbounded), a (anchor: the given start, or the given end for notation 4), s (second point,
\*        notation 1), d (interval, notations 3 and 4), r (projection of the constructed object)]
IterDur(m, inp) ==
  IF inp.fmt = 1 THEN [y |-> 0, mo |-> 0, len |-> Minus3(Inst(m, inp.s), Inst(m, inp.a)), frac |-> inp.a.frac \/ inp.s.frac]
  ELSE inp.d
Single(m, inp)  == inp.n = 1 \/ DurIsZero(IterDur(m, inp))
Forward(inp)    == inp.fmt \in {1, 3}
Bounded(inp)    == inp.n > 0
TPMatch(m, e, q) ==
  IF e.frac \/ q.frac THEN e.rep = q.rep /\ SameZone(e, q) /\ Near3(Inst(m, e), Inst(m, q), 2)
  ELSE SameTP(e, q)

IterNextClause(m, ev) ==
  LET inp == it.inp  k == it.k  d == IterDur(m, inp)  q == ev.q IN
  IF ~it.open THEN "no-open-iterator"
  ELSE IF ~ValidTP(m, q) THEN "yielded-invalid-point"
  ELSE IF Single(m, inp) THEN
       (IF k > 0 THEN "more-than-the-anchor" ELSE IF ~TPMatch(m, inp.a, q) THEN "anchor-not-yielded" ELSE "ok")
  ELSE IF Bounded(inp) /\ k >= inp.n THEN "more-than-n-points"
  ELSE IF Forward(inp) THEN
       (IF k = 0 THEN (IF TPMatch(m, inp.a, q) THEN "ok" ELSE "first-point-not-start")
        ELSE IF ~TPMatch(m, AddDurTP(m, it.last, d), q) THEN "next-not-previous-plus-interval"
        ELSE IF ~Lt3(Inst(m, it.last), Inst(m, q)) THEN "not-increasing"
        ELSE "ok")
  ELSE IF ~Bounded(inp) THEN
       (IF k = 0 THEN (IF TPMatch(m, inp.a, q) THEN "ok" ELSE "first-point-not-end")
        ELSE IF ~TPMatch(m, AddDurTP(m, it.last, DurNeg(d)), q) THEN "next-not-previous-minus-interval"
        ELSE IF ~Lt3(Inst(m, q), Inst(m, it.last)) THEN "not-decreasing"
        ELSE "ok")
  \* bounded duration/end: increasing points ending at the given end; consecutive points one interval apart,
  \* read either as next = previous + d or as previous = next - d (the statement allows "plus or minus")
  ELSE (IF k = 0 THEN "ok"
        ELSE IF ~(TPMatch(m, AddDurTP(m, it.last, d), q) \/ TPMatch(m, AddDurTP(m, q, DurNeg(d)), it.last)) THEN "consecutive-points-not-one-interval-apart"
        ELSE IF ~Lt3(Inst(m, it.last), Inst(m, q)) THEN "not-increasing"
        ELSE "ok")

IterStopClause(m, ev) ==
  LET inp == it.inp IN
  IF ~it.open THEN "no-open-iterator"
  ELSE IF Single(m, inp) THEN (IF it.k = 1 THEN "ok" ELSE "anchor-not-yielded")
  ELSE IF ~Bounded(inp) THEN "unbounded-series-ended"
  ELSE IF it.k # inp.n THEN "count-not-n"
  ELSE IF ~Forward(inp) /\ ~(Inst(m, it.last) = Inst(m, inp.a) /\ it.last.rep = inp.a.rep) THEN "end-anchor-not-included"
  ELSE "ok"

\* The recorded C12 finding, made precise: a bounded duration/end recurrence with a month/year interval derives its start as
\* end - (n-1) * interval (ONE subtraction of the multiplied interval) and then iterates FORWARD from there up to the end
\* (ImplRec.tla, MC_C12_known.cfg).  A rejected iteration step of such a recurrence is that finding only if what was yielded
\* so far is exactly what that algorithm yields; then the clause name is prefixed "known:".  Anything else stays a violation.
KnownNominalEnd(inp) == inp.fmt = 4 /\ inp.n >= 2 /\ ~DurExact(inp.d)
RECURSIVE FwdSeries(_, _, _, _, _)
FwdSeries(m, p, d, endI, k) == IF k = 0 \/ Lt3(endI, Inst(m, p)) THEN <<>> ELSE <<p>> \o FwdSeries(m, AddDurTP(m, p, d), d, endI, k - 1)
KnownSeries(m, inp) ==
  LET d == inp.d
      back == [d EXCEPT !.y = -d.y * (inp.n - 1), !.mo = -d.mo * (inp.n - 1), !.len = Neg3(Mul3(d.len, inp.n - 1))]
  IN FwdSeries(m, AddDurTP(m, inp.a, back), d, Inst(m, inp.a), inp.n + 2)
IsPrefixOfKnown(m, inp, xs) ==
  LET ks == KnownSeries(m, inp) IN Len(xs) <= Len(ks) /\ \A i \in 1..Len(xs) : TPMatch(m, ks[i], xs[i])
KnownMark(m, c, xs, whole) ==
  IF c # "ok" /\ it.open /\ KnownNominalEnd(it.inp) /\ IsPrefixOfKnown(m, it.inp, xs)
        /\ (whole => Len(xs) = Len(KnownSeries(m, it.inp)))
  THEN "known:" \o c ELSE c

\* C12: the three notations of one exact finite series: equal, and identical iteration
NotationsClause(m, ev) ==
  IF ~ev.ok THEN "raised-" \o ev.cls
  ELSE IF ~(ev.eq13 /\ ev.eq34 /\ ev.eq14) THEN "notations-not-equal"
  ELSE IF ~(Len(ev.p1) = Len(ev.p3) /\ Len(ev.p3) = Len(ev.p4)) THEN "notations-iterate-different-counts"
  ELSE IF \E k \in 1..Len(ev.p1) : ~(Inst(m, ev.p1[k]) = Inst(m, ev.p3[k]) /\ Inst(m, ev.p3[k]) = Inst(m, ev.p4[k])) THEN "notations-iterate-differently"
  ELSE IF ~(ev.h1 = ev.h3 /\ ev.h3 = ev.h4) THEN "equal-but-hash-differs"
  ELSE "ok"

\* C13: queries against the series the last exhausted (or 12-point) iteration yielded: ser
SerIndex(m, p) == IF \E k \in 1..Len(ser) : Inst(m, ser[k]) = Inst(m, p)
                  THEN CHOOSE k \in 1..Len(ser) : Inst(m, ser[k]) = Inst(m, p) ELSE 0
QueryClause(m, ev) ==
  LET inp == it.inp  d == IterDur(m, inp)  n == Len(ser) IN
  IF ~ev.ok THEN "raised-" \o ev.cls
  ELSE IF ev.q = "is_valid" THEN
       (IF ev.res # (SerIndex(m, ev.p) > 0) THEN "get_is_valid" ELSE "ok")
  ELSE IF ev.q = "getitem" THEN
       (IF ev.i < n THEN (IF ev.found /\ TPMatch(m, ser[ev.i + 1], ev.r) THEN "ok" ELSE "getitem")
        ELSE IF ev.found /\ it.complete THEN "getitem-beyond-series" ELSE "ok")
  ELSE IF ev.q \in {"next", "prev"} THEN
       LET k == SerIndex(m, ev.p)
           fwd == (ev.q = "next") = it.forward     \* the query moves in the direction of iteration
           j == IF fwd THEN k + 1 ELSE k - 1
       IN IF k = 0 THEN "query-on-non-member"
          ELSE IF Single(m, inp) THEN (IF ev.found THEN "neighbour-of-single-point" ELSE "ok")
          ELSE IF j >= 1 /\ j <= n THEN
                 (IF ev.found /\ Inst(m, ev.r) = Inst(m, ser[j]) /\ ev.r.rep = ev.p.rep THEN "ok" ELSE "neighbour-" \o ev.q)
          ELSE IF (j = 0 \/ it.complete) THEN (IF ev.found THEN "neighbour-beyond-end-" \o ev.q ELSE "ok")
          ELSE "ok"
  ELSE IF ev.q = "first_after" THEN
       LET later == {k \in 1..n : Lt3(Inst(m, ev.p), Inst(m, ser[k]))} IN
       IF later = {} THEN (IF it.complete THEN (IF ev.found THEN "first_after-beyond-series" ELSE "ok") ELSE "ok")
       ELSE LET k == CHOOSE j \in later : \A i \in later : Le3(Inst(m, ser[j]), Inst(m, ser[i])) IN
            IF ev.found /\ Inst(m, ev.r) = Inst(m, ser[k]) THEN "ok" ELSE "first_after"
  ELSE "unknown-query"

\* Beyond the listed properties: a recurrence with a min_point / max_point window.  ev: base (the unwindowed iteration),
\* pts (the windowed one, same take limit), valid[i] = get_is_valid(base[i]), items[j] = r[j].  Demanded is only what
\* every reading of the window allows: yielded points lie inside the window and are members of the unwindowed series in
\* its order, and C13's own statement (valid exactly when yielded, r[j] the j-th yielded point).  Whether iteration
\* skips or stops at a point outside the window is ImplRec's WindowPrefix / WindowFilter, not judged here.
\* Clause names beginning "ext:" are reported as deviations from the extended specification, never as violations of C13.
WindowClause(m, ev) ==
  LET inwin(p) == /\ (ev.hasMin => Le3(Inst(m, ev.min), Inst(m, p)))
                  /\ (ev.hasMax => Le3(Inst(m, p), Inst(m, ev.max)))
      nb == Len(ev.base)  np == Len(ev.pts)
      idx(j) == IF \E i \in 1..nb : SameTP(ev.base[i], ev.pts[j]) THEN CHOOSE i \in 1..nb : SameTP(ev.base[i], ev.pts[j]) ELSE 0
      beyond(p) == ~ev.complete /\ nb > 0 /\
                   (IF ev.forward THEN Lt3(Inst(m, ev.base[nb]), Inst(m, p)) ELSE Lt3(Inst(m, p), Inst(m, ev.base[nb])))
  IN
  IF ~ev.ok THEN "ext:raised-" \o ev.cls
  ELSE IF \E j \in 1..np : ~ValidTP(m, ev.pts[j]) THEN "ext:yielded-invalid-point"
  ELSE IF \E j \in 1..np : ~inwin(ev.pts[j]) THEN "ext:yielded-outside-window"
  ELSE IF \E j \in 1..np : idx(j) = 0 /\ ~beyond(ev.pts[j]) THEN "ext:yielded-non-member"
  ELSE IF \E j \in 1..(np - 1) : idx(j) > 0 /\ idx(j + 1) > 0 /\ idx(j) >= idx(j + 1) THEN "ext:window-reorders-series"
  ELSE IF \E i \in 1..nb : LET mem == \E j \in 1..np : Inst(m, ev.pts[j]) = Inst(m, ev.base[i]) IN
                             (mem \/ ev.wcomplete) /\ ev.valid[i] # mem THEN "get_is_valid#yielded"
  ELSE IF Len(ev.items) # np \/ \E j \in 1..np : ~SameTP(ev.items[j], ev.pts[j]) THEN "getitem#yielded"
  ELSE "ok"

\* C14: shifting.  ev: inp (as above), d (shift), r2 (projection of the result), pts2 (its iteration), eqback ((r+d)-d == r)
ShiftClause(m, ev) ==
  LET inp == it.inp  sh == ev.d  r2 == ev.r2  iv == IterDur(m, inp) IN
  IF ~ev.ok THEN "raised-" \o ev.cls
  ELSE IF r2.n # ev.r.n THEN "repetitions-changed"
  ELSE IF ev.r.hasDur # r2.hasDur \/ (r2.hasDur /\ ~DurSame(r2.dur, ev.r.dur)) THEN "interval-changed"
  ELSE IF Forward(inp) /\ ~(r2.hasStart /\ TPMatch(m, AddDurTP(m, inp.a, sh), r2.start)) THEN "start-not-moved-by-d"
  ELSE IF ~Forward(inp) /\ ~(r2.hasEnd /\ TPMatch(m, AddDurTP(m, inp.a, sh), r2.end)) THEN "end-not-moved-by-d"
  ELSE IF DurExact(iv) /\ DurExact(sh) /\ Len(ev.pts2) # Len(ser) THEN "shifted-series-length"
  ELSE IF DurExact(iv) /\ DurExact(sh) /\ \E k \in 1..Len(ser) :
            ~Near3(Inst(m, ev.pts2[k]), Plus3(Inst(m, ser[k]), sh.len), IF sh.frac \/ ser[k].frac THEN 2 ELSE 0) THEN "point-not-moved-by-d"
  \* r + d is the recurrence written with the anchor(s) moved by d: equal, equal hash, same points (any interval)
  ELSE IF ~sh.frac /\ ~ev.eqmoved THEN "r+d#recurrence-with-moved-anchor"
  ELSE IF ~sh.frac /\ ~ev.hmoved THEN "r+d-hash#recurrence-with-moved-anchor"
  ELSE IF Len(ev.pts2) # Len(ev.pts3) \/ \E k \in 1..Len(ev.pts2) : ~TPMatch(m, ev.pts3[k], ev.pts2[k]) THEN "r+d-iterates-differently-from-moved-anchor"
  ELSE IF DurExact(sh) /\ ~sh.frac /\ ~ev.eqback THEN "(r+d)-d==r"
  ELSE "ok"

\* C14: equality / hash of two recurrences built from descriptions that differ in `diff` ("none" | "respell" | a component)
RecEqClause(m, ev) ==
  IF ~ev.ok THEN "raised-" \o ev.cls
  ELSE IF ev.diff \in {"n", "start", "end", "interval"} /\ (ev.eq \/ ~ev.ne) THEN "unequal-components-compare-equal"
  ELSE IF ev.diff = "none" /\ (~ev.eq \/ ev.ne) THEN "same-components-compare-unequal"
  ELSE IF ev.diff = "respell" /\ ev.exact /\ ~ev.eq THEN "respelled-exact-recurrence-unequal"
  ELSE IF ev.eq /\ ev.h1 # ev.h2 THEN "equal-but-hash-differs"
  ELSE IF ev.eq /\ (ev.exact \/ ev.diff = "none") /\
          (Len(ev.p1) # Len(ev.p2) \/ \E k \in 1..Len(ev.p1) : Inst(m, ev.p1[k]) # Inst(m, ev.p2[k])) THEN "equal-but-iterate-differently"
  ELSE "ok"

\* C14: text round trip  parse(str(r)) == r with the same points
RecTextClause(m, ev) ==
  IF ~ev.ok THEN "raised-" \o ev.cls
  ELSE IF ~ev.eq THEN "parse(str(r))#r"
  ELSE IF ~ev.strfix THEN "str-not-fixpoint"
  \* (points that carry a "...Z" dump format print their UTC clock reading: the reparsed points are then the same INSTANTS)
  ELSE IF Len(ev.p1) # Len(ev.p2) \/ \E k \in 1..Len(ev.p1) :
            IF ev.byinst THEN Inst(m, ev.p1[k]) # Inst(m, ev.p2[k]) ELSE ~SameTP(ev.p1[k], ev.p2[k]) THEN "reparsed-points-differ"
  ELSE "ok"

\* C15: one calendar helper query  [fn, a, b] -> res, judged under the mode the specification tracks
CalQClause(m, ev) ==
  IF ~ev.ok THEN "raised-" \o ev.cls
  ELSE IF ev.res # Fresh(m, [fn |-> ev.fn, a |-> ev.a, b |-> ev.b]) THEN "stale-or-wrong-" \o ev.fn
  ELSE "ok"

\* C16: after every public operation the digest of every earlier slot is unchanged (dig is the specification's
\* copy of the pool digests; a placeholder slot aliases an operand and must carry that operand's digest)
OpClause(ev) ==
  IF Len(ev.dig) < Len(dig) THEN "pool-shrank"
  ELSE IF \E i \in 1..Len(dig) : ev.dig[i] # dig[i] THEN
       "slot-" \o ToString(CHOOSE i \in 1..Len(dig) : ev.dig[i] # dig[i]) \o "-changed-by-" \o ev.name
  ELSE IF ev.alias > 0 /\ Len(ev.dig) > Len(dig) /\ ev.dig[Len(ev.dig)] # ev.dig[ev.alias] THEN "alias-digest-differs"
  ELSE "ok"

\* ---------------------------------------------------------------------- C18
\* the system zone configuration is logged with each event (time.timezone / altzone are seconds WEST of UTC)
EffMin(ev) == EffectiveOffsetSec(ev.tz, ev.alt, ev.daylight, ev.isdst)
LocalZoneClause(ev) ==
  LET e == EffMin(ev) IN
  IF e % 60 # 0 THEN "ok"                     \* C18 speaks about whole-minute offsets only
  ELSE LET z == LocalZoneFn(e \div 60) IN
       IF ~ev.ok THEN "raised-" \o ev.cls
       ELSE IF ~ev.hint THEN "parts-not-integers"
       ELSE IF <<ev.h, ev.m>> # z THEN "(hours,minutes)"
       ELSE IF ev.basic # LocalZoneText(z[1], z[2], "basic") THEN "basic-text"
       ELSE IF ev.ext # LocalZoneText(z[1], z[2], "extended") THEN "extended-text"
       ELSE IF ev.red # LocalZoneText(z[1], z[2], "reduced") THEN "reduced-text"
       ELSE "ok"

EpochInst(m) == <<DayNumCal(m, 1970, 1, 1), 0, 0>>
FromEpochClause(m, ev) ==
  LET e == EffMin(ev)  z == LocalZoneFn(e \div 60)  q == ev.q IN
  IF ~ev.ok THEN "raised-" \o ev.cls
  ELSE IF ~ValidTP(m, q) THEN "result-invalid"
  \* a fractional count is handed over as a float: beyond 2^32 s its own spacing exceeds a microsecond (15 us at 10^11 s)
  ELSE IF ~Near3(Inst(m, q), Plus3(EpochInst(m), ev.n),
                 IF ev.n[3] # 0 \/ q.frac THEN (IF Abs(ev.n[1]) < 49710 THEN 1 ELSE 20) ELSE 0) THEN "instant"
  ELSE IF ev.utc /\ ~(q.zh = 0 /\ q.zm = 0) THEN "not-utc"
  ELSE IF ~ev.utc /\ e % 60 = 0 /\ <<q.zh, q.zm>> # z THEN "not-local-offset"
  ELSE "ok"
SinceEpochClause(m, ev) ==
  LET x == Minus3(Inst(m, ev.p), EpochInst(m)) IN
  IF ~ev.ok THEN "raised-" \o ev.cls
  ELSE IF ~ValidTP(m, ev.p) THEN "operand-invalid"
  ELSE IF ~ev.isint THEN "not-an-integer-text"
  \* whole-second instants exactly; with a fractional second floor or truncation is accepted (within 1 s)
  ELSE IF x[3] = 0 /\ ~ev.p.frac THEN (IF <<ev.d, ev.s>> = <<x[1], x[2]>> THEN "ok" ELSE "seconds-since-epoch")
  ELSE IF Near3(<<ev.d, ev.s, 0>>, <<x[1], x[2], 0>>, 0) \/ Near3(<<ev.d, ev.s, 0>>, Plus3(<<x[1], x[2], 0>>, <<0, 1, 0>>), 0) THEN "ok"
  ELSE "seconds-since-epoch"

\* C20: truncated + full, and the second application
TruncAddClause(m, ev) ==
  IF ~ev.ok THEN "raised-" \o ev.cls
  ELSE IF ~ValidTP(m, ev.p) THEN "operand-invalid"
  ELSE LET c == AddTruncClause(m, ev.t, ev.p, ev.q) IN
       IF c # "ok" THEN c
       ELSE IF ~(Inst(m, ev.q2) = Inst(m, ev.q) /\ SameZone(ev.q2, ev.q)) THEN "second-application-moves"
       ELSE "ok"

\* ---------------------------------------------------------------------- C07: parsing documented forms
\* ev: g (generation record), cfg [basic, hasAssumed, azh, azm, unknown], tz/alt/daylight/isdst (system zone),
\*     text (code points handed to the parser), ok/cls, q (projection), dumped (str(parse(text, dump_as_parsed=True)))
ExpZone(ev) ==
  LET g == ev.g IN
  IF g.tform # "none" /\ g.zform # "none" THEN <<g.zh, g.zm>>
  ELSE IF ev.cfg.hasAssumed THEN <<ev.cfg.azh, ev.cfg.azm>>
  ELSE IF ev.cfg.unknown THEN <<0, 0>>
  ELSE LocalZoneFn(EffMin(ev) \div 60)
GValid(m, g) ==
  /\ CASE DateRep(g.dform) = "cal"  -> ValidCal(m, ExpYear(g), ExpA(g), ExpB(g))
        [] DateRep(g.dform) = "ord"  -> ValidOrd(m, ExpYear(g), ExpA(g))
        [] OTHER -> ValidWeek(m, ExpYear(g), ExpA(g), ExpB(g))
  /\ (g.tform = "none" \/ (ExpH(g) <= 23 /\ ExpM(g) <= 59 /\ ExpS(g) <= 59)
                        \/ (ExpH(g) = 24 /\ ExpM(g) = 0 /\ ExpS(g) = 0 /\ \A i \in 1..Len(g.ds) : g.ds[i] = 0))
  /\ (g.tform = "none" \/ g.zform = "none" \/ ValidZone(g.zh, g.zm))
ParseTPClause(m, ev) ==
  LET g == ev.g  q == ev.q
      accept == WellFormed(g) /\ (ev.cfg.basic => AllBasic(g)) /\ GValid(m, g)
      z == ExpZone(ev)
      gd == [g EXCEPT !.ds = IF Len(g.ds) = 0 THEN g.ds ELSE StripZeros(g.ds)]
  IN
  IF ev.text # TPText(g) THEN "harness-render-mismatch"
  ELSE IF ~accept THEN (IF ev.ok THEN "accepted-a-form-that-must-be-refused" ELSE IF ~ev.ve THEN "refused-with-" \o ev.cls ELSE "ok")
  ELSE IF ~ev.ok THEN "refused-documented-form-" \o ev.cls
  ELSE IF ~ValidTP(m, q) THEN "result-invalid"
  ELSE IF q.rep # DateRep(g.dform) THEN "representation"
  ELSE IF q.y # ExpYear(g) THEN "year"
  ELSE IF q.a # ExpA(g) \/ q.b # ExpB(g) THEN "date-fields"
  \* without a decimal only the time of day is pinned (how the point stores it internally is the library's business);
  \* with a decimal the precision form must be the written one - the text has to be reproduced from it
  ELSE IF Len(g.ds) = 0 /\ ~(q.sod = ExpH(g) * 3600 + ExpM(g) * 60 + ExpS(g) /\ q.us = 0 /\ q.fu = 0) THEN "time-of-day"
  ELSE IF Len(g.ds) > 0 /\ q.prec # ExpPrec(g) THEN "precision-form"
  ELSE IF Len(g.ds) > 0 /\ q.hh # ExpH(g) THEN "hour"
  ELSE IF Len(g.ds) > 0 /\ q.prec # "h" /\ q.mi # ExpM(g) THEN "minute"
  ELSE IF Len(g.ds) > 0 /\ q.prec = "hms" /\ q.ss # ExpS(g) THEN "second"
  ELSE IF Len(g.ds) > 0 /\ ~(q.fu - Micro6(g.ds) \in 0..1) THEN "decimal-fraction"
  ELSE IF <<q.zh, q.zm>> # z THEN "offset"
  \* text reproduction: decimals of up to 6 digits up to trailing zeros
  ELSE IF Len(g.ds) <= 6 /\ ev.dumped # TPText(gd) THEN "dump-as-parsed-does-not-reproduce-input"
  ELSE "ok"

\* ---------------------------------------------------------------------- C08: writing out and reading back
SameValue(p, q) == p.rep = q.rep /\ p.y = q.y /\ p.a = q.a /\ p.b = q.b /\ SameZone(p, q) /\ p.prec = q.prec
                   /\ p.hh = q.hh /\ p.mi = q.mi /\ p.ss = q.ss /\ p.fu = q.fu
StrTripClause(m, ev) ==
  IF ~ev.ok THEN "raised-" \o ev.cls
  ELSE IF ~ValidTP(m, ev.p) THEN "operand-invalid"
  ELSE IF ~SameValue(ev.p, ev.q) THEN "parsed-value-differs"
  ELSE IF ~ev.eq THEN "parsed-not-equal-to-original"
  ELSE IF ev.text2 # ev.text THEN "str-not-a-fixpoint"
  ELSE "ok"
DumpTripClause(m, ev) ==
  IF ~ev.ok THEN "raised-" \o ev.cls
  ELSE IF ~ValidTP(m, ev.q) THEN "parsed-invalid"
  ELSE IF ~Near3(Inst(m, ev.q), Inst(m, ev.p), IF ev.p.frac THEN 1 ELSE 0) THEN "custom-dump-parses-to-another-instant"
  ELSE IF ~ev.p.frac /\ ~ev.eq THEN "custom-dump-not-equal"
  ELSE "ok"

\* ---------------------------------------------------------------------- C09: acceptance table and arbitrary text
CtorValid(m, c) ==
  /\ CASE c.rep = "cal" -> ValidCal(m, c.y, c.a, c.b) [] c.rep = "ord" -> ValidOrd(m, c.y, c.a) [] OTHER -> ValidWeek(m, c.y, c.a, c.b)
  /\ c.hh \in 0..24 /\ c.mi \in 0..59 /\ c.ss \in 0..59 /\ (c.hh = 24 => c.mi = 0 /\ c.ss = 0)
  /\ ValidZone(c.zh, c.zm)
CtorClause(m, ev) ==
  LET c == ev.c  q == ev.q IN
  IF CtorValid(m, c) THEN
       (IF ~ev.ok THEN "refused-valid-fields-" \o ev.cls
        ELSE IF ~(q.rep = c.rep /\ q.y = c.y /\ q.a = c.a /\ (c.rep = "ord" \/ q.b = c.b) /\ q.hh = c.hh /\ q.mi = c.mi /\ q.ss = c.ss
                  /\ q.zh = c.zh /\ q.zm = c.zm) THEN "constructed-value-differs"
        ELSE "ok")
  ELSE IF ev.ok THEN "accepted-impossible-fields"
  ELSE IF ~ev.ve THEN "refused-with-non-ValueError-" \o ev.cls
  ELSE "ok"
FuzzClause(m, ev) ==
  IF ev.outcome = "timeout" THEN "hang"
  ELSE IF ev.outcome = "other" THEN "non-ValueError-" \o ev.cls
  ELSE IF ev.refuse /\ ev.outcome = "obj" THEN "impossible-date-time-admitted"
  \* (a returned point whose year lies outside the model's range cannot be evaluated and is not judged)
  ELSE IF ev.outcome = "obj" /\ ev.isq /\ YearInModel(ev.q.y) /\ ~ValidTP(m, ev.q) THEN "returned-invalid-time-point"
  ELSE "ok"

\* ---------------------------------------------------------------------- C10: durations and text
\* generated text -> parse: ev.gd (generation record), text, ok, q (projection), text2 = str(q), q2 = parse(text2)
\* alternative spelling: ev.alt (TPText-style record read literally), its parse qa must equal the designator parse
DurNearTol(x, e, tol) == x.y = e.y /\ x.mo = e.mo /\ Near3(x.len, e.len, tol)
DurParseClause(ev) ==
  LET e == DurTextValue(ev.gd)
      \* a decimal of an hour is known to 1 micro-hour = 3600 us; of a minute 60 us; of a second 1 us (+1 for a 7th digit)
      tol == IF Len(ev.gd.ds) = 0 THEN 0 ELSE CASE LastUnit(ev.gd) = "h" -> 3700 [] LastUnit(ev.gd) = "mi" -> 62 [] OTHER -> 2
  IN
  IF ev.text # DurText(ev.gd) THEN "harness-render-mismatch"
  ELSE IF ~ev.ok THEN "refused-" \o ev.cls
  ELSE IF ~DurNearTol(ev.q, e, tol) THEN "parsed-value-differs-from-designators"
  ELSE IF ev.q.wk # ev.gd.wk /\ ~(ev.gd.wk /\ ev.gd.w = 0) THEN "weeks-form-lost"
  ELSE IF ~ev.eq2 THEN "parse(str(d))#d"
  ELSE IF ev.text3 # ev.text2 THEN "str-not-a-fixpoint"
  ELSE "ok"
DurObjClause(ev) ==
  IF ~ev.ok THEN "raised-" \o ev.cls
  ELSE IF ~ev.eq THEN "parse(str(d))#d"
  ELSE IF ~DurNearTol(ev.q, ev.d, IF ev.d.frac THEN 2 ELSE 0) THEN "parsed-value-differs"
  ELSE IF ev.text2 # ev.text THEN "str-not-a-fixpoint"
  ELSE "ok"
DurAltClause(ev) ==
  IF ~ev.ok THEN "raised-" \o ev.cls
  ELSE IF ~ev.eq THEN "alternative-spelling-differs-from-designators"
  ELSE IF ~DurNearTol(ev.qa, ev.qd, 0) THEN "alternative-spelling-value"
  ELSE "ok"

\* ---------------------------------------------------------------------- C17: strftime / strptime
StrfClause(m, ev) ==
  LET bad == HasTok(ev.toks, {"bad"}) IN
  IF ~ValidTP(m, ev.p) THEN "operand-invalid"
  ELSE IF bad THEN (IF ev.ok THEN "unsupported-directive-rendered" ELSE IF ~ev.ve THEN "refused-with-" \o ev.cls ELSE "ok")
  ELSE IF ~ev.ok THEN "raised-" \o ev.cls
  ELSE IF HasTok(ev.toks, {"s"}) THEN
       \* %s alone: the Unix time of the instant, as day/second pair parsed from the digits by the harness
       LET x == Minus3(Inst(m, ev.p), EpochInst(m)) IN
       IF ~ev.isint THEN "%s-not-an-integer" ELSE IF <<ev.sd, ev.ss>> # <<x[1], x[2]>> THEN "%s" ELSE "ok"
  ELSE IF ev.text # StrfText(m, ev.p, ev.toks, 1) THEN "text-differs-from-POSIX"
  ELSE "ok"
\* strptime of the text strftime produced, with the same format; parser assumed zone (azh, azm)
StrpClause(m, ev) ==
  LET p == ev.p  q == ev.q  t == ev.toks
      c == CivilDate(m, p)  o == OrdOf(m, LocalDay(m, p))
      hasY == HasTok(t, {"Y", "F"})  hasM == HasTok(t, {"m", "F"})  hasD == HasTok(t, {"d", "F"})  hasJ == HasTok(t, {"j"})
      hasH == HasTok(t, {"H", "X"})  hasMi == HasTok(t, {"M", "X"})  hasS == HasTok(t, {"S", "X"})  hasZ == HasTok(t, {"z"})
      eh == IF hasH THEN p.sod \div 3600 ELSE 0
      em == IF hasMi THEN (p.sod % 3600) \div 60 ELSE 0
      es == IF hasS THEN p.sod % 60 ELSE 0
  IN
  IF ~ev.ok THEN "raised-" \o ev.cls
  ELSE IF ~ValidTP(m, q) THEN "result-invalid"
  ELSE IF HasTok(t, {"s"}) THEN (IF Inst(m, q) = Inst(m, p) THEN "ok" ELSE "%s-does-not-invert")
  ELSE IF hasJ /\ ~(q.rep = "ord" /\ q.y = c[1] /\ q.a = o[2]) THEN "date-from-%j"
  ELSE IF ~hasJ /\ ~(q.rep = "cal" /\ q.y = c[1] /\ q.a = (IF hasM THEN c[2] ELSE 1) /\ q.b = (IF hasD THEN c[3] ELSE 1)) THEN "date"
  ELSE IF q.sod # eh * 3600 + em * 60 + es \/ q.us # 0 THEN "time-of-day"
  ELSE IF hasZ /\ ~SameZone(p, q) THEN "offset"
  ELSE IF ~hasZ /\ ~(q.zh = ev.azh /\ q.zm = ev.azm) THEN "assumed-offset"
  ELSE IF hasY /\ (hasJ \/ (hasM /\ hasD)) /\ hasH /\ hasMi /\ hasS /\ hasZ /\ ~(Inst(m, q) = Inst(m, p) /\ ev.eq) THEN "not-equal-to-original"
  ELSE "ok"

\* ---------------------------------------------------------------------- C19: the command line
\* ev.cal = the calendar the invocation selects (option, else environment variable, else "gregorian")
GToTP(g, z) ==
  [rep |-> DateRep(g.dform), y |-> ExpYear(g), a |-> ExpA(g), b |-> ExpB(g), prec |-> "hms",
   hh |-> ExpH(g), mi |-> ExpM(g), ss |-> ExpS(g), sod |-> ExpH(g) * 3600 + ExpM(g) * 60 + ExpS(g), us |-> 0, fu |-> 0,
   frac |-> FALSE, zh |-> z[1], zm |-> z[2], xd |-> g.xd]
RECURSIVE ShiftAll(_, _, _, _)
ShiftAll(m, p, offs, k) == IF k > Len(offs) THEN p ELSE ShiftAll(m, AddDurTP(m, p, offs[k]), offs, k + 1)
ToUTC(m, p) == AtLocal(m, [p EXCEPT !.zh = 0, !.zm = 0], Plus3(Local(m, p), <<0, -ZoneSec(p.zh, p.zm), 0>>))
CliInput(m, ev, g) ==
  LET z == IF g.tform # "none" /\ g.zform # "none" THEN <<g.zh, g.zm>>
           ELSE IF ev.utc THEN <<0, 0>> ELSE LocalZoneFn(EffMin(ev) \div 60)
      p0 == GToTP(g, z)
  IN IF ev.utc THEN ToUTC(m, p0) ELSE p0
TPToG(g, p) ==
  [g EXCEPT !.neg = p.y < 0, !.y = Abs(p.y), !.a = p.a, !.b = p.b, !.hh = p.sod \div 3600, !.mi = (p.sod % 3600) \div 60,
            !.ss = p.sod % 60, !.zh = p.zh, !.zm = p.zm]
\* print formats: ev.pf = [kind |-> "none" | "strf" | "iso", toks (strf), g (iso: the form to print in), lz = <<has, zh, zm>>
\* (iso: a literal zone in the format re-expresses the point in it)];  ev.pp = [has, toks]: --parse-format (strptime syntax)
InRep(m, p, rep) == AtLocal(m, [p EXCEPT !.rep = rep], Local(m, p))
InZone2(m, p, zh, zm) == AtLocal(m, [p EXCEPT !.zh = zh, !.zm = zm], Plus3(Local(m, p), <<0, ZoneSec(zh, zm) - ZoneSec(p.zh, p.zm), 0>>))
CliPointClause(ev) ==
  LET m == Meaning(ev.cal)  g == ev.g
      p == ShiftAll(m, CliInput(m, ev, g), ev.offs, 1)
      \* with no offset nothing is normalised: the text comes back as written (24:00 stays 24:00)
      own == IF Len(ev.offs) = 0 /\ ~ev.utc THEN g ELSE TPToG(g, p)
      pz == IF ev.pf.kind = "iso" /\ ev.pf.lz[1] THEN InZone2(m, p, ev.pf.lz[2], ev.pf.lz[3]) ELSE p
      expect == CASE ev.pf.kind = "strf" -> StrfText(m, p, ev.pf.toks, 1)
                  [] ev.pf.kind = "iso"  -> TPText(TPToG(ev.pf.g, InRep(m, pz, DateRep(ev.pf.g.dform))))
                  [] ev.pp.has           -> StrfText(m, p, ev.pp.toks, 1)
                  [] OTHER               -> TPText(own)
  IN IF ev.traceback THEN "traceback-" \o ev.cls
     ELSE IF ev.code # 0 THEN "exit-status-" \o ToString(ev.code)
     ELSE IF ev.out # expect \o <<10>> THEN "printed-text-is-not-the-shifted-input-in-the-expected-notation"
     ELSE "ok"
CliDiffClause(ev) ==
  LET m == Meaning(ev.cal)
      p1 == ShiftAll(m, CliInput(m, ev, ev.g), ev.offs, 1)
      p2 == ShiftAll(m, CliInput(m, ev, ev.g2), ev.offs2, 1)
      dist == Minus3(Inst(m, p2), Inst(m, p1))
      \* with a print format for the difference: sign, then each letter y m d h M s replaced by that component of |d|
      \* (days and the time of day; a difference of two points has no years or months), other characters literal
      ad == IF Lt3(dist, Zero3) THEN Neg3(dist) ELSE dist
      RECURSIVE Fmt(_)
      Fmt(k) == IF k > Len(ev.dpf) THEN <<>>
                ELSE (LET t == ev.dpf[k].d IN
                      CASE t = "lit" -> <<ev.dpf[k].c>> [] t = "d" -> Dec(ad[1]) [] t = "h" -> Dec(ad[2] \div 3600)
                        [] t = "M" -> Dec((ad[2] % 3600) \div 60) [] t = "s" -> Dec(ad[2] % 60) [] OTHER -> Dec(0)) \o Fmt(k + 1)
  IN IF ev.traceback THEN "traceback-" \o ev.cls
     ELSE IF ev.code # 0 THEN "exit-status-" \o ToString(ev.code)
     ELSE IF Len(ev.dpf) > 0 THEN
          (IF ev.out = (IF Lt3(dist, Zero3) THEN <<CHMinus>> ELSE <<>>) \o Fmt(1) \o <<10>> THEN "ok" ELSE "formatted-difference-is-not-the-signed-duration")
     \* the total is printed as a float in the requested unit: ~1e-9 h at 10^7 h is a few microseconds
     ELSE IF ev.total THEN (IF ev.parsed /\ Near3(ev.tlen, dist, 50) THEN "ok" ELSE "--as-total-differs-from-the-distance")
     ELSE IF ~ev.parsed THEN "printed-duration-unreadable"
     ELSE IF ev.d.y # 0 \/ ev.d.mo # 0 THEN "printed-duration-not-exact"
     ELSE IF ev.d.len # dist THEN "first+d#second"
     ELSE "ok"
\* --as-total with a duration argument: the exact length, or the rough length (year = the calendar's common year,
\* month = 30 days) when the duration has months or years, in the requested unit
CliTotalClause(ev) ==
  LET m == Meaning(ev.cal)  v == DurTextValue(ev.gd)
      e == IF v.y = 0 /\ v.mo = 0 THEN v.len ELSE DurRough(m, v) IN
  IF ev.traceback THEN "traceback-" \o ev.cls
  ELSE IF ev.code # 0 THEN "exit-status-" \o ToString(ev.code)
  ELSE IF ~ev.parsed THEN "printed-total-unreadable"
  ELSE IF ~Near3(ev.tlen, e, 50) THEN "--as-total-differs-from-the-duration"
  ELSE "ok"
CliBadClause(ev) ==
  IF ev.traceback THEN "traceback-" \o ev.cls
  ELSE IF ev.code = 0 THEN "malformed-argument-accepted"
  ELSE IF ~ev.msg THEN "no-message"
  ELSE "ok"
CliRecClause(ev) ==
  IF ev.traceback THEN "traceback-" \o ev.cls
  ELSE IF ev.code # 0 THEN "exit-status-" \o ToString(ev.code)
  ELSE IF ev.lines # ev.expect THEN "number-of-printed-points"
  ELSE IF ~ev.parsed THEN "printed-point-unreadable"
  ELSE "ok"

\* C07: truncated forms (parser with allow_truncated): the fields spelled are reported as the truncated properties,
\* the zone is unknown unless given, dump_as_parsed reproduces the input
\* beyond the listed properties: the derived read-only properties of a TimePoint that the dumpers use
PropsClause(ev) ==
  LET p == ev.p  ay == Abs(p.y) IN
  IF ~ev.ok THEN "ext:raised-" \o ev.cls
  ELSE IF ev.cen # (ay % 10000) \div 100 THEN "ext:century"
  ELSE IF ev.yoc # ay % 100 THEN "ext:year_of_century"
  ELSE IF ev.yod # ay % 10 THEN "ext:year_of_decade"
  ELSE IF ev.doc # (ay % 100) \div 10 THEN "ext:decade_of_century"
  ELSE IF ev.ysign # (IF p.y >= 0 THEN 43 ELSE 45) THEN "ext:year_sign"
  ELSE IF ev.zsign # (IF p.zh < 0 \/ p.zm < 0 THEN 45 ELSE 43) THEN "ext:time_zone_sign"
  ELSE IF <<ev.zha, ev.zma>> # <<Abs(p.zh), Abs(p.zm)>> THEN "ext:time_zone_abs"
  ELSE IF ~p.frac /\ ev.sod # p.sod THEN "ext:get_second_of_day"
  ELSE "ok"

\* beyond the listed properties: the names a truncated point reports for its largest given and smallest missing unit
LargestProp(e) ==
  IF e.yc >= 0 THEN "year_of_century" ELSE IF e.yd >= 0 THEN "year_of_decade" ELSE IF e.mo >= 0 THEN "month_of_year"
  ELSE IF e.woy >= 0 THEN "week_of_year" ELSE IF e.doy >= 0 THEN "day_of_year" ELSE IF e.dom >= 0 THEN "day_of_month"
  ELSE IF e.dow >= 0 THEN "day_of_week" ELSE IF e.hh >= 0 THEN "hour_of_day" ELSE IF e.mi >= 0 THEN "minute_of_hour"
  ELSE IF e.ss >= 0 THEN "second_of_minute" ELSE ""
SmallestMissing(e) ==
  IF e.yc >= 0 THEN "century" ELSE IF e.yd >= 0 THEN "decade_of_century" ELSE IF e.mo >= 0 \/ e.woy >= 0 \/ e.doy >= 0 THEN "year_of_century"
  ELSE IF e.dom >= 0 THEN "month_of_year" ELSE IF e.dow >= 0 THEN "week_of_year" ELSE IF e.hh >= 0 THEN "day_of_month"
  ELSE IF e.mi >= 0 THEN "hour_of_day" ELSE IF e.ss >= 0 THEN "minute_of_hour" ELSE ""
ParseTruncClause(ev) ==
  LET gt == ev.gt  e == TruncFields(gt)  q == ev.q
      lastfu == IF Len(gt.ds) = 0 THEN 0 ELSE Micro6(gt.ds)
      fu == IF e.ss >= 0 THEN q.ssus ELSE IF e.mi >= 0 THEN q.mius ELSE q.hhus
      gd == [gt EXCEPT !.ds = IF Len(gt.ds) = 0 THEN gt.ds ELSE StripZeros(gt.ds)]
  IN
  IF ev.text # TruncText(gt) THEN "harness-render-mismatch"
  ELSE IF ~ev.ok THEN "refused-documented-truncated-form-" \o ev.cls
  ELSE IF ~ev.trunc THEN "not-reported-as-truncated"
  ELSE IF <<q.yc, q.yd, q.mo, q.dom, q.doy, q.woy, q.dow>> # <<e.yc, e.yd, e.mo, e.dom, e.doy, e.woy, e.dow>> THEN "truncated-date-properties"
  ELSE IF <<q.hh, q.mi, q.ss>> # <<e.hh, e.mi, e.ss>> THEN "truncated-time-properties"
  ELSE IF ~(fu - lastfu \in 0..1) THEN "decimal-fraction"
  ELSE IF gt.tform # "none" /\ gt.zform # "none" /\ ~(~q.zu /\ q.zh = gt.zh /\ q.zm = gt.zm) THEN "offset"
  \* no zone in the text: unknown when the parser defaults to unknown, the assumed offset when it is told one
  ELSE IF (gt.tform = "none" \/ gt.zform = "none") /\ ev.pz = "unknown" /\ ~q.zu THEN "zone-not-unknown"
  ELSE IF (gt.tform = "none" \/ gt.zform = "none") /\ ev.pz = "assumed" /\ ~(~q.zu /\ q.zh = 5 /\ q.zm = 30) THEN "assumed-offset"
  ELSE IF Len(gt.ds) <= 6 /\ ev.dumped # TruncText(gd) THEN "dump-as-parsed-does-not-reproduce-input"
  ELSE IF ev.lg # LargestProp(e) THEN "ext:largest-truncated-property-name"
  ELSE IF ev.sm # SmallestMissing(e) THEN "ext:smallest-missing-property-name"
  ELSE "ok"

\* one comparison performed by the repository's own tests: rel in {"eq","lt","le","gt","ge"}
Cmp1Clause(m, ev) ==
  LET c == Cmp3(Inst(m, ev.a), Inst(m, ev.b))
      e == CASE ev.rel = "eq" -> c = 0 [] ev.rel = "lt" -> c < 0 [] ev.rel = "le" -> c <= 0 [] ev.rel = "gt" -> c > 0 [] OTHER -> c >= 0
  IN IF ~(ValidTP(m, ev.a) /\ ValidTP(m, ev.b)) THEN "operand-invalid"
     ELSE IF ev.a.frac \/ ev.b.frac THEN "ok"
     ELSE IF ev.res # e THEN "comparison-" \o ev.rel
     ELSE "ok"

\* one Duration operation performed by the repository's own tests
DurOp1Clause(ev) ==
  LET fr == ev.a.frac \/ ev.b.frac \/ ev.r.frac
      Same(x, e) == IF fr THEN DurNear(x, e) ELSE DurSame(x, e) IN
  CASE ev.k = "add" -> (IF Same(ev.r, DurAddFn(ev.a, ev.b)) THEN "ok" ELSE "suite-duration-add")
    [] ev.k = "mul" -> (IF Same(ev.r, DurMulFn(ev.a, ev.n)) THEN "ok" ELSE "suite-duration-mul")
    [] ev.k = "eq"  -> (IF fr \/ ev.res = DurEq(ev.a, ev.b) THEN "ok" ELSE "suite-duration-eq")
    [] OTHER -> "unknown-duration-op"

\* ---------------------------------------------------------------------- the step relation
Clause(ev) ==
  CASE ev.op = "Begin"    -> "ok"
    \* (extended specification: the mode the library reports afterwards means the mode that was set)
    [] ev.op = "SetMode"  -> IF "rep" \in DOMAIN ev /\ Meaning(ev.rep) # Meaning(ev.sp) THEN "ext:reported-mode-is-not-the-mode-set" ELSE "ok"
    [] ev.op = "CalYear"  -> CalYearClause(mode, ev)
    [] ev.op = "CalRange" -> RangeClause(mode, ev.qs)
    [] ev.op = "Conv"     -> ConvClause(mode, ev)
    [] ev.op = "Add"      -> AddClause(mode, ev)
    [] ev.op = "Cmp"      -> CmpClause(mode, ev)
    [] ev.op = "Pool"     -> PoolClause(mode, ev)
    [] ev.op = "SubTP"    -> SubTPClause(mode, ev)
    [] ev.op = "Ident"    -> IdentClause(mode, ev)
    [] ev.op = "RoundTrip" -> RoundTripClause(mode, ev)
    [] ev.op = "Zone"     -> ZoneClause(mode, ev)
    [] ev.op = "DurLaws"  -> DurLawsClause(mode, ev)
    [] ev.op = "IterOpen" -> "ok"
    [] ev.op = "IterNext" -> KnownMark(mode, IterNextClause(mode, ev), Append(ser, ev.q), FALSE)
    [] ev.op = "IterStop" -> KnownMark(mode, IterStopClause(mode, ev), ser, TRUE)
    [] ev.op = "IterAbandon" -> "ok"
    \* a series handed over as given must be the recorded behaviour itself (else the iteration is broken in some OTHER way)
    [] ev.op = "IterGiven" -> IF \E k \in 1..Len(ev.pts) : ~ValidTP(mode, ev.pts[k]) THEN "yielded-invalid-point"
                              ELSE IF KnownNominalEnd(ev.inp) /\ ev.complete /\
                                      ~(LET ks == KnownSeries(mode, ev.inp) IN
                                        Len(ks) = Len(ev.pts) /\ \A i \in 1..Len(ks) : TPMatch(mode, ks[i], ev.pts[i]))
                                   THEN "given-series-is-not-the-recorded-behaviour" ELSE "ok"
    [] ev.op = "Notations" -> NotationsClause(mode, ev)
    [] ev.op = "Query"    -> QueryClause(mode, ev)
    [] ev.op = "Window"   -> WindowClause(mode, ev)
    [] ev.op = "Shift"    -> ShiftClause(mode, ev)
    [] ev.op = "RecEq"    -> RecEqClause(mode, ev)
    [] ev.op = "RecText"  -> RecTextClause(mode, ev)
    [] ev.op = "CalQ"     -> CalQClause(mode, ev)
    [] ev.op = "PoolInit" -> "ok"
    [] ev.op = "Op"       -> OpClause(ev)
    [] ev.op = "LocalZone" -> LocalZoneClause(ev)
    [] ev.op = "FromEpoch" -> FromEpochClause(mode, ev)
    [] ev.op = "SinceEpoch" -> SinceEpochClause(mode, ev)
    [] ev.op = "TruncAdd" -> TruncAddClause(mode, ev)
    [] ev.op = "ParseTP"  -> ParseTPClause(mode, ev)
    [] ev.op = "StrTrip"  -> StrTripClause(mode, ev)
    [] ev.op = "DumpTrip" -> DumpTripClause(mode, ev)
    [] ev.op = "Ctor"     -> CtorClause(mode, ev)
    [] ev.op = "Fuzz"     -> FuzzClause(mode, ev)
    [] ev.op = "DurParse" -> DurParseClause(ev)
    [] ev.op = "DurObj"   -> DurObjClause(ev)
    [] ev.op = "DurAlt"   -> DurAltClause(ev)
    [] ev.op = "Strf"     -> StrfClause(mode, ev)
    [] ev.op = "Strp"     -> StrpClause(mode, ev)
    [] ev.op = "CliPoint" -> CliPointClause(ev)
    [] ev.op = "CliDiff"  -> CliDiffClause(ev)
    [] ev.op = "CliBad"   -> CliBadClause(ev)
    [] ev.op = "CliTotal" -> CliTotalClause(ev)
    [] ev.op = "CliRec"   -> CliRecClause(ev)
    [] ev.op = "ParseTrunc" -> ParseTruncClause(ev)
    [] ev.op = "DurOp1"   -> DurOp1Clause(ev)
    [] ev.op = "DurExt"   -> DurExtClause(ev)
    [] ev.op = "DurStd"   -> DurStdClause(ev)
    [] ev.op = "DurBig"   -> DurBigClause(ev)
    [] ev.op = "Props"    -> PropsClause(ev)
    [] ev.op = "Cmp1"     -> Cmp1Clause(mode, ev)
    [] ev.op = "SuiteEnd" -> "ok"
    [] ev.op = "Raised"   -> "raised-" \o ev.cls
    [] OTHER -> "unknown-event-kind"

Step ==
  /\ l <= N
  /\ LET ev == Tr[l]  c == Clause(ev) IN
       /\ Judge(ev, c)
       /\ rej' = RejInc(c)
       /\ mode' = IF ev.op = "Begin" THEN ev.cm
                  ELSE IF ev.op = "SetMode" THEN Meaning(ev.sp)
                  ELSE IF ev.op \in {"CliPoint", "CliDiff", "CliBad", "CliRec", "CliTotal"} THEN Meaning(ev.cal) ELSE mode
       /\ it' = CASE ev.op = "Begin" -> NoIt
                   [] ev.op = "IterOpen" -> [open |-> TRUE, inp |-> ev.inp, k |-> 0, last |-> ev.inp.a,
                                             forward |-> ev.forward, complete |-> FALSE]
                   \* C13 is relative to what iteration yields: where the iteration itself is a recorded C12 finding the series
                   \* is taken as given (not judged here) and the queries are judged against it
                   [] ev.op = "IterGiven" -> [open |-> TRUE, inp |-> ev.inp, k |-> Len(ev.pts),
                                              last |-> IF Len(ev.pts) > 0 THEN ev.pts[Len(ev.pts)] ELSE ev.inp.a,
                                              forward |-> ev.forward, complete |-> ev.complete]
                   [] ev.op = "IterNext" /\ it.open -> [it EXCEPT !.k = it.k + 1, !.last = ev.q]
                   [] ev.op = "IterStop" /\ it.open -> [it EXCEPT !.complete = TRUE]
                   [] OTHER -> it
       /\ ser' = CASE ev.op \in {"Begin", "IterOpen"} -> <<>>
                    [] ev.op = "IterNext" -> Append(ser, ev.q)
                    [] ev.op = "IterGiven" -> ev.pts
                    [] OTHER -> ser
       /\ dig' = CASE ev.op = "Begin" -> <<>>
                    [] ev.op \in {"PoolInit", "Op"} -> ev.dig
                    [] OTHER -> dig
       /\ zone' = IF ev.op \in {"LocalZone", "FromEpoch"} THEN [tz |-> ev.tz, alt |-> ev.alt, daylight |-> ev.daylight, isdst |-> ev.isdst]
                  ELSE zone
  /\ l' = l + 1

Finish ==
  /\ l = N + 1
  /\ PrintT(<<"DONE", N, rej>>)
  /\ l' = N + 2
  /\ UNCHANGED <<mode, dig, it, ser, zone, rej>>

Next == Step \/ Finish
Spec == Init /\ [][Next]_vars

\* every state is well-formed; the mode is always one of the four meanings
TypeOK == l \in 1..(N + 2) /\ mode \in Modes /\ rej \in 0..N
=============================================================================
