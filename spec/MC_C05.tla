------------------------------- MODULE MC_C05 -------------------------------
EXTENDS ImplMonths, Json
Years == {1900, 2000, 2003, 2004, 2020, 0}
MkP(mm, rep, n) ==
  LET dt == DateOf(mm, rep, n) IN
  [rep |-> rep, y |-> dt[1], a |-> dt[2], b |-> dt[3], prec |-> "hms", hh |-> 12, mi |-> 0, ss |-> 0, sod |-> 43200, us |-> 0,
   fu |-> 0, frac |-> FALSE, zh |-> 5, zm |-> 30, xd |-> 0]
\* month ends and their neighbours, leap day, last days of the year (day 366, week 53)
Offsets(mm, y) == {CumDays(mm, y)[k] - x : k \in 2..13, x \in {1, 2}} \cup {CumDays(mm, y)[k] : k \in 2..12} \cup {0, 58, 59, 60}
Months == {0, 1, -1, 2, 11, -11, 12, -12, 13, -25, 25}
YearsN == {0, 1, -1, 4, -4, 100, 400}
Init ==
  /\ m \in Modes
  /\ \E y \in Years, rep \in {"cal", "ord", "week"} : \E o \in Offsets(m, y) :
       /\ o >= 0 /\ o < DaysInYear(m, y)
       /\ p0 = MkP(m, rep, YearStart(m, y) + o)
  /\ nmo \in Months /\ nyr \in YearsN
  /\ (nmo = 0 \/ nyr = 0 \/ (nmo \in {1, -1, 13} /\ nyr \in {1, -1, 4}))
  /\ c = CivilDate(m, p0) /\ left = nmo /\ q = p0 /\ phase = "months"
Spec == Init /\ [][Next]_vars
EmitGen == phase = "months" /\ left = nmo => PrintT(<<"GEN", ToJson(<<m, p0.rep, p0.y, p0.a, p0.b, nmo, nyr>>)>>)
OnlyInit == phase = "months" /\ left = nmo
Off == FALSE
On == TRUE
=============================================================================
