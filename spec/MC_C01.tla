------------------------------- MODULE MC_C01 -------------------------------
(* C01 on the specification: the implementation-shaped carry chain (Impl.tla) refines the abstract postcondition
   (Ops.tla AddExactClause) for every (mode, point, exact duration) of a boundary universe, and terminates. *)
EXTENDS Impl, Json
Years == {1900, 2003, 2004, 0}
Offsets == {0, 1, 30, 58, 59, 60, 358, 359, 363, 364, 365}
Sods == {0, 43200, 86399, 86400}
Zones == {<<0, 0>>, <<5, 30>>}
Reps == {"cal", "ord", "week"}
MkP(mm, rep, n, sod, z) ==
  LET dt == DateOf(mm, rep, n) IN
  [rep |-> rep, y |-> dt[1], a |-> dt[2], b |-> dt[3], prec |-> "hms", hh |-> sod \div 3600, mi |-> (sod % 3600) \div 60,
   ss |-> sod % 60, sod |-> sod, us |-> 0, fu |-> 0, frac |-> FALSE, zh |-> z[1], zm |-> z[2], xd |-> 0]
MkD(d, h, mi, s) == [wk |-> FALSE, w |-> 0, y |-> 0, mo |-> 0, d |-> d, h |-> h, mi |-> mi, s |-> s,
                     len |-> Norm3(<<d, h * 3600 + mi * 60 + s, 0>>), frac |-> FALSE]
Durs == {MkD(d, 0, 0, 0) : d \in {1, -1, 7, -7, 31, -31, 366, -366, 1461, -1461}}
   \cup {MkD(0, h, 0, 0) : h \in {1, -1, 24, -25, 8784}}
   \cup {MkD(0, 0, mi, 0) : mi \in {1, -1, 1441, -1440}}
   \cup {MkD(0, 0, 0, s) : s \in {1, -1, 86400, -86401, 3600}}
   \cup {MkD(1, 1, 1, 1), MkD(-1, -1, -1, -1), MkD(30, 23, 59, 59), MkD(365, 0, 0, -1), MkD(-366, 23, 0, 1)}
Init ==
  /\ m \in Modes
  /\ \E y \in Years, o \in Offsets, rep \in Reps, sod \in Sods, z \in Zones :
       /\ o < DaysInYear(m, y)
       /\ p0 = MkP(m, rep, YearStart(m, y) + o, sod, z)
  /\ d0 \in Durs
  /\ f = [y |-> p0.y, a |-> p0.a, b |-> p0.b, hh |-> p0.hh, mi |-> p0.mi, ss |-> p0.ss]
  /\ phase = "s" /\ stage = "idle" /\ steps = 0
Spec == Init /\ [][Next]_vars
\* GEN: every (mode, point, duration) of the universe, for replay into the real library
EmitGen == steps = 0 => PrintT(<<"GEN", ToJson(<<m, p0.rep, p0.y, p0.a, p0.b, p0.sod, p0.zh, p0.zm, d0.d, d0.h, d0.mi, d0.s>>)>>)
OnlyInit == steps = 0
Off == FALSE
On == TRUE
=============================================================================
