------------------------------- MODULE MC_C18 -------------------------------
(* C18 on the specification: the (hours, minutes) split and its spellings are coherent for every whole-minute
   offset: both parts carry the offset's sign, recombine to the offset, and each text form decodes back. *)
EXTENDS Ops, Text
VARIABLES o
Init == o = -1440
Next == o < 1440 /\ o' = o + 1
Split == LET z == LocalZoneFn(o) IN
  /\ z[1] * 60 + z[2] = o
  /\ (o >= 0 => z[1] >= 0 /\ z[2] >= 0) /\ (o <= 0 => z[1] <= 0 /\ z[2] <= 0)
  /\ z[2] \in -59..59 /\ ValidZone(z[1], z[2]) 
Spellings == LET z == LocalZoneFn(o)  b == LocalZoneText(z[1], z[2], "basic")  e == LocalZoneText(z[1], z[2], "extended")
                 r == LocalZoneText(z[1], z[2], "reduced") IN
  /\ (o = 0) = (b = <<CHZ>>) /\ (o = 0) = (e = <<CHZ>>) /\ (o = 0) = (r = <<CHZ>>)
  /\ (o # 0 => Len(b) = 5 /\ Len(e) = 6 /\ b[1] = (IF o < 0 THEN CHMinus ELSE CHPlus)
              /\ (b[2] - CH0) * 10 + (b[3] - CH0) = Abs(z[1]) /\ (b[4] - CH0) * 10 + (b[5] - CH0) = Abs(z[2])
              /\ e[4] = CHColon /\ (IF z[2] = 0 THEN Len(r) = 3 ELSE r = b))
=============================================================================
