------------------------------- MODULE Lib -------------------------------
(***************************************************************************)
(* The library as a state machine (DESIGN section 1), the part with real   *)
(* state: the process-wide calendar mode, the memo tables of the cached    *)
(* calendar helpers, and the pool of values created so far.                *)
(*                                                                         *)
(*   mode   the active calendar meaning                                    *)
(*   cache  key -> value table of the memoised helpers; a key is           *)
(*          <<fn, args, m>> where m is the mode for helpers whose key      *)
(*          includes the mode and "*" for those whose key does not         *)
(*   pool   append-only sequence of values (abstract digests)              *)
(*   out    last observable result                                         *)
(*   hist   the history of calls (observation variable; hidden by VIEW     *)
(*          where only safety of the design is checked)                    *)
(*                                                                         *)
(* C15 is the invariant ModeDetermines, C16 the action property Immutable. *)
(* Unkeyed is the sensitivity knob: the set of helper names whose cache    *)
(* key (wrongly) omits the mode; {} is the design the library implements.  *)
(***************************************************************************)
EXTENDS Cal, Sequences, TLC, Json

CONSTANTS Spellings,      \* mode spellings offered to SetMode
          Probes,         \* set of [fn, a, b] queries
          Unkeyed,        \* helpers whose memo key omits the mode (design fault when non-empty)
          MaxDepth,       \* bound on the history length
          CliOpts,        \* values of --calendar offered to the Cli action ("" = option absent)
          CliEnvs,        \* values of ISODATETIMECALENDAR ("" = unset)
          EnvOverridesOption   \* design fault knob for C19: the environment variable wins over the option

VARIABLES mode, cache, pool, out, hist
vars == <<mode, cache, pool, out, hist>>

Key(p, m) == <<p.fn, p.a, p.b, IF p.fn \in Unkeyed \/ p.fn = "is_leap" THEN "*" ELSE m>>

Init == /\ mode = "gregorian" /\ cache = << >> /\ pool = << >>
        /\ out = [kind |-> "none"] /\ hist = << >>

SetMode(sp) ==
  /\ mode' = Meaning(sp)
  /\ out' = [kind |-> "none"]
  /\ hist' = Append(hist, [op |-> "SetMode", sp |-> sp])
  /\ UNCHANGED <<cache, pool>>

\* one memoised helper call: a hit returns what was stored (possibly under another mode if the key is
\* too coarse), a miss computes under the current mode and stores
CacheHit(p) ==
  /\ Key(p, mode) \in DOMAIN cache
  /\ out' = [kind |-> "query", p |-> p, val |-> cache[Key(p, mode)]]
  /\ UNCHANGED cache
CacheMiss(p) ==
  /\ Key(p, mode) \notin DOMAIN cache
  /\ LET v == Fresh(mode, p) IN
       /\ out' = [kind |-> "query", p |-> p, val |-> v]
       /\ cache' = [k \in DOMAIN cache \cup {Key(p, mode)} |-> IF k = Key(p, mode) THEN v ELSE cache[k]]
Query(p) ==
  /\ (CacheHit(p) \/ CacheMiss(p))
  /\ hist' = Append(hist, [op |-> "Query", fn |-> p.fn, a |-> p.a, b |-> p.b])
  /\ UNCHANGED <<mode, pool>>

\* one command-line invocation: the calendar is selected by --calendar, else by the environment variable, else it is
\* the default - and STAYS selected in the process afterwards; the invocation then computes (here: one query)
CliChoice(opt, env) == IF EnvOverridesOption THEN (IF env # "" THEN env ELSE IF opt # "" THEN opt ELSE "gregorian")
                       ELSE (IF opt # "" THEN opt ELSE IF env # "" THEN env ELSE "gregorian")
Cli(opt, env, p) ==
  /\ mode' = Meaning(CliChoice(opt, env))
  /\ LET k == Key(p, mode') IN
       IF k \in DOMAIN cache
       THEN out' = [kind |-> "query", p |-> p, val |-> cache[k], opt |-> opt, env |-> env] /\ UNCHANGED cache
       ELSE /\ out' = [kind |-> "query", p |-> p, val |-> Fresh(mode', p), opt |-> opt, env |-> env]
            /\ cache' = [kk \in DOMAIN cache \cup {k} |-> IF kk = k THEN Fresh(mode', p) ELSE cache[kk]]
  /\ hist' = Append(hist, [op |-> "Cli", opt |-> opt, env |-> env, fn |-> p.fn, a |-> p.a, b |-> p.b])
  /\ UNCHANGED pool

Next ==
  /\ Len(hist) < MaxDepth
  /\ \/ \E sp \in Spellings : SetMode(sp)
     \/ \E p \in Probes : Query(p)
     \/ \E opt \in CliOpts, env \in CliEnvs, p \in Probes : Cli(opt, env, p)

Spec == Init /\ [][Next]_vars

\* C15: after any history, each result is what a fresh process in the current mode computes
ModeDetermines == out.kind = "query" => out.val = Fresh(mode, out.p)
\* the cache only ever holds values that are right for the mode recorded in their key
CacheSound == \A k \in DOMAIN cache : k[4] # "*" => cache[k] = Fresh(k[4], [fn |-> k[1], a |-> k[2], b |-> k[3]])
TypeOK == mode \in Modes /\ Len(hist) <= MaxDepth
\* C19: --calendar / ISODATETIMECALENDAR select what they say (the option first)
CliSelects == ("opt" \in DOMAIN out) =>
                mode = Meaning(IF out.opt # "" THEN out.opt ELSE IF out.env # "" THEN out.env ELSE "gregorian")

\* GEN: emit every maximal history TLC explores, for replay into the real library
EmitGen == Len(hist) = MaxDepth => PrintT(<<"GEN", ToJson(hist)>>)
View == <<mode, cache, out>>
=============================================================================
