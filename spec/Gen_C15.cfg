SPECIFICATION Spec
CONSTANTS Spellings <- SpellingsAll
          Probes <- ProbesSmall
          Unkeyed <- NoFns
          MaxDepth = 3
INVARIANT EmitGen
CHECK_DEADLOCK FALSE
