SPECIFICATION Spec
CONSTANTS Spellings <- SpellingsAll
          Probes <- ProbesSmall
          Unkeyed <- NoFns
          CliOpts <- NoCli
          CliEnvs <- NoCli
          EnvOverridesOption <- Off
          MaxDepth = 3
INVARIANT EmitGen
CHECK_DEADLOCK FALSE
