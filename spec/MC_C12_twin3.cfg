SPECIFICATION Spec
CONSTANTS MultipliedEndForNominal <- Off
          StrictBounds <- Off
          FirstAfterIgnoresEnd <- On
          MaxTake = 6
          ShiftMovesStoredPoints <- Off
          WinSpecs <- NoWins
          Shifts <- NoShifts
          Intervals <- ExactOnly
          Fmts <- F13
          Ns <- NsBounded
INVARIANT Increasing
INVARIANT CountAndAnchor
INVARIANT NoEarlyStop
INVARIANT FirstIsAnchor
INVARIANT Bounded
INVARIANT FirstAfterAgrees
CHECK_DEADLOCK FALSE
