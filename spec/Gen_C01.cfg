SPECIFICATION Spec
CONSTANTS OrdinalCarryUsesNextYear <- Off
          WeekCarryUsesNextYear <- Off
          BackwardOrdinalUsesThisYear <- Off
INVARIANT EmitGen
CONSTRAINT OnlyInit
CHECK_DEADLOCK FALSE
