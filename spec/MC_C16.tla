------------------------------- MODULE MC_C16 -------------------------------
(***************************************************************************)
(* C16 on the specification: the value pool of the library state machine.  *)
(* Values are opaque here (a type and an identity); what matters is which  *)
(* operations exist, what they consume and produce, and that NO action     *)
(* rewrites a slot: the pool is append-only (Immutable / AppendOnly).      *)
(* TLC enumerates every operation sequence over a typed pool to a depth    *)
(* (and long random ones with -simulate); each is emitted (GEN) and        *)
(* replayed on concrete values in the real library, where the digest of    *)
(* EVERY slot is re-taken after EVERY step.                                *)
(***************************************************************************)
EXTENDS Sequences, Naturals, TLC, Json, SequencesExt
CONSTANT MaxDepth
VARIABLES pool, hist
vars == <<pool, hist>>

\* [name, t1, t2, rt]  ("-" = no such operand / no value result)
O(n, a, b, r) == [name |-> n, t1 |-> a, t2 |-> b, rt |-> r]
Ops == {
  O("tp_add_dur", "TP", "Dur", "TP"), O("dur_radd_tp", "TP", "Dur", "TP"), O("tp_sub_dur", "TP", "Dur", "TP"),
  O("tp_sub_tp", "TP", "TP", "Dur"), O("tp_cmp", "TP", "TP", "-"), O("tp_hash", "TP", "-", "-"), O("tp_str", "TP", "-", "-"),
  O("tp_to_zone", "TP", "Zone", "TP"), O("tp_to_utc", "TP", "-", "TP"), O("tp_to_cal", "TP", "-", "TP"),
  O("tp_to_ord", "TP", "-", "TP"), O("tp_to_week", "TP", "-", "TP"), O("tp_to_hms", "TP", "-", "TP"),
  O("tp_add_months0", "TP", "-", "TP"), O("tp_add_months", "TP", "-", "TP"), O("tp_zone", "TP", "-", "Zone"),
  O("tp_dump", "TP", "-", "-"), O("tp_strftime", "TP", "-", "-"), O("tp_epoch", "TP", "-", "-"), O("tp_accessors", "TP", "-", "-"),
  O("dur_add", "Dur", "Dur", "Dur"), O("dur_sub", "Dur", "Dur", "Dur"), O("dur_mul", "Dur", "-", "Dur"), O("dur_neg", "Dur", "-", "Dur"),
  O("dur_cmp", "Dur", "Dur", "-"), O("dur_hash", "Dur", "-", "-"), O("dur_str", "Dur", "-", "-"), O("dur_to_days", "Dur", "-", "Dur"),
  O("dur_to_weeks", "Dur", "-", "Dur"), O("dur_abs", "Dur", "-", "Dur"), O("dur_floordiv", "Dur", "-", "Dur"), O("dur_seconds", "Dur", "-", "-"),
  O("dur_add_zone", "Dur", "Zone", "Dur"), O("zone_sub", "Zone", "Zone", "Zone"), O("zone_str", "Zone", "-", "-"), O("zone_hash", "Zone", "-", "-"),
  O("rec_add_dur", "Rec", "Dur", "Rec"), O("dur_radd_rec", "Rec", "Dur", "Rec"), O("rec_sub_dur", "Rec", "Dur", "Rec"),
  O("rec_iter2", "Rec", "-", "TP"), O("rec_getitem", "Rec", "-", "TP"), O("rec_is_valid", "Rec", "TP", "-"),
  O("rec_next", "Rec", "TP", "TP"), O("rec_prev", "Rec", "TP", "TP"), O("rec_first_after", "Rec", "TP", "TP"),
  O("ttp_add_tp", "TTP", "TP", "TP"), O("tp_add_ttp", "TP", "TTP", "TP"), O("ttp_str", "TTP", "-", "-"), O("ttp_hash", "TTP", "-", "-"),
  O("ttp_to_utc", "TTP", "-", "TTP"), O("ttp_props", "TTP", "-", "-"), O("ttp_cmp", "TTP", "TTP", "-"),
  \* constructors that take existing values as arguments (the new value may hold them, it must not change them)
  O("rec_new_sd", "TP", "Dur", "Rec"), O("rec_new_de", "TP", "Dur", "Rec"), O("rec_new_se", "TP", "TP", "Rec"), O("rec_new_win", "TP", "TP", "Rec"),
  O("tp_zone_offset", "TP", "TP", "Zone"),
  \* augmented assignment on an alias of the operand (x = a; x += b): must not write through to a
  O("tp_oper_format", "TP", "-", "-"), O("ttp_sub_ttp", "TTP", "TTP", "Dur"), O("ttp_to_zone", "TTP", "Zone", "TTP"),
  O("dur_iadd", "Dur", "Dur", "Dur"), O("tp_iadd", "TP", "Dur", "TP"), O("dur_imul", "Dur", "-", "Dur"),
  O("rec_eq", "Rec", "Rec", "-"), O("rec_hash", "Rec", "-", "-"), O("rec_str", "Rec", "-", "-"), O("rec_anchors", "Rec", "-", "TP")}

Pool0 == <<"TP", "TP", "Dur", "Dur", "Zone", "Rec", "Rec", "TTP", "Zone">>
Init == pool = Pool0 /\ hist = << >>

Apply(o, i, j) ==
  /\ pool[i] = o.t1
  /\ (o.t2 = "-" /\ j = 0) \/ (o.t2 # "-" /\ j \in DOMAIN pool /\ pool[j] = o.t2)
  /\ pool' = IF o.rt = "-" THEN pool ELSE Append(pool, o.rt)
  /\ hist' = Append(hist, [name |-> o.name, i |-> i, j |-> j])

Next == /\ Len(hist) < MaxDepth
        /\ \E o \in Ops : \E i \in DOMAIN pool : \E j \in 0..Len(pool) : Apply(o, i, j)
Spec == Init /\ [][Next]_vars

\* C16 at the level of the design: no action rewrites or removes a slot
Immutable  == [][\A i \in DOMAIN pool : i \in DOMAIN pool' /\ pool'[i] = pool[i]]_vars
AppendOnly == [][IsPrefix(pool, pool')]_vars
TypeOK == \A i \in DOMAIN pool : pool[i] \in {"TP", "Dur", "Zone", "Rec", "TTP"}
EmitGen == Len(hist) = MaxDepth => PrintT(<<"GEN", ToJson(hist)>>)
=============================================================================
