SPECIFICATION Spec
CONSTANTS MultipliedEndForNominal <- Off
          StrictBounds <- Off
          FirstAfterIgnoresEnd <- Off
          MaxTake = 6
          ShiftMovesStoredPoints <- Off
          WinSpecs <- NoWins
          Shifts <- OneShift
          Intervals <- AllIv
          Fmts <- F13
          Ns <- NsAll
INVARIANT Increasing
INVARIANT CountAndAnchor
INVARIANT NoEarlyStop
INVARIANT FirstIsAnchor
INVARIANT Bounded
INVARIANT ShiftOK
CHECK_DEADLOCK FALSE
