SPECIFICATION Spec
CONSTANTS MultipliedEndForNominal <- Off
          StrictBounds <- Off
          FirstAfterIgnoresEnd <- Off
          MaxTake = 6
          ShiftMovesStoredPoints <- Off
          Shifts <- NoShifts
          Intervals <- AllIv
          Fmts <- F134
          Ns <- NsAll
INVARIANT EmitGen
CONSTRAINT OnlyInit
CHECK_DEADLOCK FALSE
