SPECIFICATION Spec
CONSTANTS MultipliedEndForNominal <- Off
          StrictBounds <- On
          FirstAfterIgnoresEnd <- Off
          MaxTake = 6
          ShiftMovesStoredPoints <- Off
          WinSpecs <- NoWins
          Shifts <- NoShifts
          Intervals <- ExactOnly
          Fmts <- F134
          Ns <- NsBounded
INVARIANT Increasing
INVARIANT CountAndAnchor
INVARIANT NoEarlyStop
INVARIANT FirstIsAnchor
INVARIANT Bounded
INVARIANT FirstAfterAgrees
CHECK_DEADLOCK FALSE
