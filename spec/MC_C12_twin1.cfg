SPECIFICATION Spec
CONSTANTS MultipliedEndForNominal <- On
          StrictBounds <- Off
          FirstAfterIgnoresEnd <- Off
          MaxTake = 6
          ShiftMovesStoredPoints <- Off
          WinSpecs <- NoWins
          Shifts <- NoShifts
          Intervals <- AllIv
          Fmts <- F13
          Ns <- NsBounded
INVARIANT Increasing
INVARIANT CountAndAnchor
INVARIANT NoEarlyStop
INVARIANT FirstIsAnchor
INVARIANT Bounded
INVARIANT FirstAfterAgrees
CHECK_DEADLOCK FALSE
