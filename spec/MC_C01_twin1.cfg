SPECIFICATION Spec
CONSTANTS OrdinalCarryUsesNextYear <- On
          WeekCarryUsesNextYear <- Off
          BackwardOrdinalUsesThisYear <- Off
INVARIANT Refines
INVARIANT ChainNormalises
INVARIANT Variant
CHECK_DEADLOCK FALSE
