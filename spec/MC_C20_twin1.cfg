SPECIFICATION Spec
CONSTANTS HourDoesNotZeroMinutes <- On
          DayMoveKeepsHour <- Off
          Hour24SoughtLiterally <- Off
          Week53Everywhere <- Off
          AllowKnownClass <- Off
          Shapes = 0
INVARIANT Refines
INVARIANT Variant
CHECK_DEADLOCK FALSE
