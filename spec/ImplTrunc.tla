----------------------------- MODULE ImplTrunc -----------------------------
(***************************************************************************)
(* IMPLEMENTATION-SHAPED layer for C20: TimePoint.add_truncated as the     *)
(* library performs it - after re-expressing p in the offset in which t is *)
(* read, one unit loop after another (second, minute, hour, weekday,       *)
(* day-of-month, day-of-year, week), each iteration adding ONE unit and    *)
(* normalising (the _tick_over carry, abstracted here to arithmetic on the *)
(* local <<day, second-of-day>> position).  One action per loop iteration, *)
(* so TLC checks termination (a variant) as well as the result against     *)
(* the abstract AddTruncClause of Ops.tla.                                 *)
(*                                                                         *)
(* Knobs: HourDoesNotZeroMinutes (a seeded design fault), Week53Everywhere *)
(* (the pre-2200682 constructor bound: week 53 accepted in every mode),    *)
(* DayMoveKeepsHour (the algorithm before the repair of the last C20       *)
(* finding: after walking to a later day the hour reached in the time      *)
(* phase was kept although t names no hour, so the result was not the      *)
(* earliest match).                                                        *)
(***************************************************************************)
EXTENDS Ops
CONSTANTS HourDoesNotZeroMinutes, Week53Everywhere, DayMoveKeepsHour,
          Hour24SoughtLiterally      \* the loop before the repair: it looked for an hour field reading 24, which ticking over never leaves
VARIABLES m, t, p0,     \* mode, truncated operand (record as in Ops.tla C20), full operand (zone 0, whole second)
          day, sod,     \* working position
          later,        \* a day-designator loop has moved the position to a later day
          phase, steps
vars == <<m, t, p0, day, sod, later, phase, steps>>

\* effective targets as add_truncated computes them
TgtM == IF t.mi >= 0 THEN t.mi ELSE IF t.hh >= 0 /\ ~HourDoesNotZeroMinutes THEN 0 ELSE -1
TgtS == IF t.ss >= 0 THEN t.ss ELSE IF t.hh >= 0 \/ TgtM >= 0 THEN 0 ELSE -1
Order == <<"s", "mi", "h", "dow", "dom", "doy", "woy", "done">>
NextPh(ph) == CASE ph = "s" -> "mi" [] ph = "mi" -> "h" [] ph = "h" -> "dow" [] ph = "dow" -> "dom" [] ph = "dom" -> "doy"
                [] ph = "doy" -> "woy" [] OTHER -> "done"
Adv(secs) == /\ day' = day + ((sod + secs) \div DAY) /\ sod' = (sod + secs) % DAY

Loop ==
  /\ phase # "done"
  /\ CASE phase = "s"   -> IF TgtS >= 0 /\ sod % 60 # TgtS THEN Adv(1) /\ UNCHANGED <<phase, later>>
                           ELSE phase' = NextPh(phase) /\ UNCHANGED <<day, sod, later>>
       [] phase = "mi"  -> IF TgtM >= 0 /\ (sod % 3600) \div 60 # TgtM THEN Adv(60) /\ UNCHANGED <<phase, later>>
                           ELSE phase' = NextPh(phase) /\ UNCHANGED <<day, sod, later>>
       [] phase = "h"   -> IF t.hh >= 0 /\ sod \div 3600 # (IF t.hh = 24 /\ ~Hour24SoughtLiterally THEN 0 ELSE t.hh)
                           THEN Adv(3600) /\ UNCHANGED <<phase, later>>
                           ELSE phase' = NextPh(phase) /\ UNCHANGED <<day, sod, later>>
       [] phase = "dow" -> IF t.dow > 0 /\ Weekday(day) # t.dow THEN day' = day + 1 /\ later' = TRUE /\ UNCHANGED <<sod, phase>>
                           ELSE phase' = NextPh(phase) /\ UNCHANGED <<day, sod, later>>
       [] phase = "dom" -> IF t.dom > 0 /\ CalOf(m, day)[3] # t.dom THEN day' = day + 1 /\ later' = TRUE /\ UNCHANGED <<sod, phase>>
                           ELSE phase' = NextPh(phase) /\ UNCHANGED <<day, sod, later>>
       [] phase = "doy" -> IF t.doy > 0 /\ OrdOf(m, day)[2] # t.doy THEN day' = day + 1 /\ later' = TRUE /\ UNCHANGED <<sod, phase>>
                           ELSE phase' = NextPh(phase) /\ UNCHANGED <<day, sod, later>>
       [] OTHER         -> IF t.woy > 0 /\ WeekOf(m, day)[2] # t.woy THEN day' = day + 7 /\ later' = TRUE /\ UNCHANGED <<sod, phase>>
                           \* leaving the last loop: on a later day the earliest time with the named minute / second is in hour 0
                           \* (and minute 0 when only the second is named)
                           ELSE /\ phase' = NextPh(phase) /\ UNCHANGED <<day, later>>
                                /\ sod' = IF later /\ ~DayMoveKeepsHour /\ t.hh < 0 /\ (t.mi >= 0 \/ t.ss >= 0)
                                          THEN (IF t.mi >= 0 THEN t.mi ELSE 0) * 60 + (sod % 60) ELSE sod
  /\ steps' = steps + 1
  /\ UNCHANGED <<m, t, p0>>
Next == Loop

Result == AtLocal(m, p0, <<day, sod, 0>>)
\* C20: the finished computation is the earliest match
Refines == phase = "done" => AddTruncClause(m, t, p0, Result) = "ok"
\* termination: each loop is bounded by the cycle of its unit (60 s, 60 min, 24 h, 7 days, 62 days for a day-of-month
\* that exists, 9 years for day 366 / week 53)
Variant == steps <= 8 + 60 + 60 + 24 + 7 + 62 + 3300 + 480
=============================================================================
