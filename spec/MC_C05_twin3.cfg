SPECIFICATION Spec
CONSTANTS ClampUsesLeapTable <- Off
          NoWeek53Clamp <- Off
          Day366To364 <- On
INVARIANT Refines
INVARIANT NStepsIsNMonths
INVARIANT StepValid
CHECK_DEADLOCK FALSE
