INIT Init
NEXT Next
INVARIANT Retraction
CHECK_DEADLOCK FALSE
