SPECIFICATION Spec
CONSTANTS HourDoesNotZeroMinutes <- Off
          DayMoveKeepsHour <- Off
          Hour24SoughtLiterally <- Off
          Week53Everywhere <- Off
          AllowKnownClass <- On
          Shapes = 0
INVARIANT Refines
INVARIANT Variant
CHECK_DEADLOCK FALSE
