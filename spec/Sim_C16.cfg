SPECIFICATION Spec
CONSTANT MaxDepth = 14
INVARIANT EmitGen
CHECK_DEADLOCK FALSE
