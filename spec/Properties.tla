----------------------------- MODULE Properties -----------------------------
(***************************************************************************)
(* The twenty properties of /verif/properties.jsonl as named TLA+ formulas *)
(* over the abstract layer (index of the specification; each is checked    *)
(* (a) on the implementation-shaped layer by the MC_* instances and (b) on *)
(* every recorded execution of the library by the clauses of Conform.tla). *)
(***************************************************************************)
EXTENDS Ops, Text

\* C01  p + d (d exact) translates the instant exactly; representation, offset kept; all fields legal
P01(m, p, d, q) == DurExact(d) => AddExactClause(m, p, d, q) = "ok"                 \* MC_C01 Refines; Conform!AddClause
\* C02  the six operators follow the order of the instants; equal => equal hash
P02(m, a, b, r, ha, hb) == r = CmpVector(m, a, b) /\ (Inst(m, a) = Inst(m, b) => ha = hb)   \* MC_C02 CmpRefines/HashConsistent; Conform!CmpClause, PoolClause
\* C03  the three date forms are views of one day number, in every mode
P03(m, n) == /\ DayNumCal(m, CalOf(m, n)[1], CalOf(m, n)[2], CalOf(m, n)[3]) = n
             /\ DayNumOrd(m, OrdOf(m, n)[1], OrdOf(m, n)[2]) = n
             /\ DayNumWeek(m, WeekOf(m, n)[1], WeekOf(m, n)[2], WeekOf(m, n)[3]) = n      \* MC_C03 Inverse/WeekRule/Lengths; Conform!CalYearClause
\* C04  a - b is the signed distance, exact, single-signed, fields in range
P04(m, a, b, d) == SubClause(m, a, b, d) = "ok"                                    \* MC_C02 SubRefines; Conform!SubTPClause, IdentClause, RoundTripClause
\* C05  months by clamped single steps, years per representation; exact part, then months, then years
P05(m, p, d, q) == AddDurClause(m, p, d, q) = "ok"                                 \* MC_C05 Refines/NStepsIsNMonths; Conform!AddClause
\* C06  re-expression in another offset keeps the instant and the representation
P06(m, p, zh, zm, q) == ToZoneClause(m, p, zh, zm, q) = "ok"                       \* MC_C06 Refines; Conform!ZoneClause
\* C07  a documented expression denotes exactly its fields; the text is reproduced
P07(g) == WellFormed(g) => TPText(g) # <<>>                                        \* MC_C07 Unambiguous, MC_C08 Retraction; Conform!ParseTPClause, ParseTruncClause
\* C08  writing out and reading back is lossless
P08(p, q) == SameDate(p, q) /\ SameZone(p, q) /\ p.sod = q.sod /\ p.fu = q.fu     \* MC_C08; Conform!StrTripClause, DumpTripClause
\* C09  accepted <=> the fields name a real date-time of the mode
P09(m, p) == ValidTP(m, p)                                                         \* MC_C09 tables; Conform!CtorClause, FuzzClause, ParseTPClause (GValid)
\* C10  durations survive the round trip through text
P10(gd, v) == DurSame(v, DurTextValue(gd))                                         \* MC_C10 Retraction/SameValue/Negation; Conform!DurParseClause, DurObjClause, DurAltClause
\* C11  duration arithmetic, equality, ordering, hashing are coherent
P11(a, b, s) == DurSame(s, DurAddFn(a, b))                                         \* MC_C11 (12 invariants); Conform!DurLawsClause
\* C12  a recurrence iterates the series it denotes
P12(m, prev, d, q) == SameTP(q, AddDurTP(m, prev, d))                              \* MC_C12 CountAndAnchor/Increasing/...; Conform!IterNextClause, IterStopClause, NotationsClause
\* C13  queries agree with iteration                                                  MC_C12 FirstAfterAgrees; Conform!QueryClause
\* C14  recurrences are values                                                        MC_C14 ShiftOK; Conform!ShiftClause, RecEqClause, RecTextClause
\* C15  the active mode alone determines calendar results                             Lib!ModeDetermines, Lib!CacheSound (MC_C15 + 10 twins); Conform!CalQClause under the tracked mode
\* C16  values are immutable                                                          MC_C16!Immutable, AppendOnly; Conform!OpClause
\* C17  strftime = POSIX; strptime inverts it
P17(m, p, toks, text) == text = StrfText(m, p, toks, 1)                            \* MC_C17 Inverts/YearIsCivil; Conform!StrfClause, StrpClause
\* C18  Unix time and the local offset are exact
P18(o, h, mi) == <<h, mi>> = LocalZoneFn(o)                                        \* MC_C18 Split/Spellings; Conform!LocalZoneClause, FromEpochClause, SinceEpochClause
\* C19  the command line prints what the library computes                             Lib!CliSelects (MC_C19); Conform!CliPointClause, CliDiffClause, CliRecClause, CliBadClause
\* C20  truncated + full = the earliest match not before p
P20(m, t, p, q) == AddTruncClause(m, t, p, q) = "ok"                               \* MC_C20 Refines/Variant; Conform!TruncAddClause
=============================================================================
