------------------------------- MODULE MC_C17 -------------------------------
(* C17 on the specification: strptime-style reading of the text strftime writes recovers the civil date, time and
   offset the format determines, for points of all three representations around week-year / year edges. *)
EXTENDS TextMatch
VARIABLES m, p, toks
MkP(mm, rep, n, sod, z) ==
  LET dt == DateOf(mm, rep, n) IN
  [rep |-> rep, y |-> dt[1], a |-> dt[2], b |-> dt[3], prec |-> "hms", hh |-> sod \div 3600, mi |-> (sod % 3600) \div 60,
   ss |-> sod % 60, sod |-> sod, us |-> 0, fu |-> 0, frac |-> FALSE, zh |-> z[1], zm |-> z[2], xd |-> 0]
T(d) == [d |-> d, c |-> 0]
L(c) == [d |-> "lit", c |-> c]
Formats == {<<T("F"), L(CHT), T("X"), T("z")>>, <<T("Y"), T("m"), T("d"), L(CHT), T("H"), T("M"), T("S"), T("z")>>,
            <<T("Y"), L(CHMinus), T("j"), L(CHSpace), T("X"), L(CHSpace), T("z")>>, <<T("d"), L(CHSlash), T("m"), L(CHSlash), T("Y")>>,
            <<T("z"), L(CHSpace), T("S"), L(CHColon), T("M"), L(CHColon), T("H"), L(CHSpace), T("j"), L(CHSpace), T("Y")>>,
            <<T("Y")>>, <<T("H"), T("M"), L(CHZ), T("Y"), T("j")>>}
Days(mm) == {YearStart(mm, 9999), YearStart(mm, 9999) + 2, YearStart(mm, 1) + 1, YearStart(mm, 2000) + 59, WeekYearStart(mm, 2021) - 1,
             YearStart(mm, 1970), YearStart(mm, 2021) - 1}
Init == m \in Modes /\ toks \in Formats
        /\ \E rep \in {"cal", "ord", "week"}, n \in Days(m), sod \in {0, 86399, 45296}, z \in {<<0, 0>>, <<5, 30>>, <<0, -45>>, <<-11, 0>>} :
             p = MkP(m, rep, n, sod, z)
Next == UNCHANGED <<m, p, toks>>
Inverts ==
  LET t == StrfText(m, p, toks, 1)  r == MatchStrp(t, toks)
      c == CivilDate(m, p)  o == OrdOf(m, LocalDay(m, p)) IN
  /\ (HasTok(toks, {"Y", "F"}) => r.y = c[1])
  /\ (HasTok(toks, {"m", "F"}) => r.mo = c[2]) /\ (HasTok(toks, {"d", "F"}) => r.d = c[3])
  /\ (HasTok(toks, {"j"}) => r.j = o[2])
  /\ (HasTok(toks, {"H", "X"}) => r.hh = p.sod \div 3600) /\ (HasTok(toks, {"M", "X"}) => r.mi = (p.sod % 3600) \div 60)
  /\ (HasTok(toks, {"S", "X"}) => r.ss = p.sod % 60)
  /\ (HasTok(toks, {"z"}) => r.hasz /\ r.zh = p.zh /\ r.zm = p.zm)
\* %Y always carries four digits and is the civil (not the week) year
YearIsCivil == \A k \in 1..Len(toks) : toks[k].d = "Y" => TokText(m, p, toks[k]) = Digits(CivilDate(m, p)[1], 4)
=============================================================================
