------------------------------- MODULE Ops -------------------------------
(***************************************************************************)
(* ABSTRACT layer: what each operation of the data model must do, stated   *)
(* on the integer timeline (properties C01-C06, C11-C14, C18, C20).        *)
(* These are postconditions / mathematical functions; how the library      *)
(* computes them is the business of Impl*.tla.                             *)
(***************************************************************************)
EXTENDS Val

\* ---------------------------------------------------------------- C01
\* tolerance in microseconds: 1 when a fractional unit is involved, else exact
Tol(p, d, q) == IF p.frac \/ d.frac \/ q.frac THEN 1 ELSE 0

AddExactClause(m, p, d, q) ==
  IF ~ValidTP(m, q) THEN "result-invalid"
  ELSE IF q.hh >= 24 THEN "result-hour-24"
  ELSE IF q.rep # p.rep THEN "representation-changed"
  ELSE IF ~SameZone(p, q) THEN "offset-changed"
  ELSE IF ~Near3(Inst(m, q), Plus3(Inst(m, p), d.len), Tol(p, d, q)) THEN "instant"
  ELSE "ok"
AddExactPost(m, p, d, q) == AddExactClause(m, p, d, q) = "ok"

\* ---------------------------------------------------------------- C05
\* one month step on a civil date <<y, mo, d>> (sg = +1 / -1), clamping to the target month
MonthStep(m, c, sg) ==
  LET mo0 == c[2] + sg
      y1  == IF mo0 > 12 THEN c[1] + 1 ELSE IF mo0 < 1 THEN c[1] - 1 ELSE c[1]
      mo1 == IF mo0 > 12 THEN 1 ELSE IF mo0 < 1 THEN 12 ELSE mo0
  IN <<y1, mo1, Min2(c[3], DaysInMonth(m, y1, mo1))>>
RECURSIVE MonthSteps(_, _, _)
MonthSteps(m, c, n) ==
  IF n = 0 THEN c ELSE MonthSteps(m, MonthStep(m, c, Sign(n)), n - Sign(n))

\* n months added to a time point: through the civil date, back in p's representation
AddMonthsTP(m, p, n) ==
  IF n = 0 THEN p
  ELSE LET c  == MonthSteps(m, CivilDate(m, p), n)
           dt == DateOf(m, p.rep, DayNumCal(m, c[1], c[2], c[3]))
       IN [p EXCEPT !.y = dt[1], !.a = dt[2], !.b = dt[3]]

\* n years added, per representation
AddYearsTP(m, p, n) ==
  IF n = 0 THEN p
  ELSE LET y1 == p.y + n IN
    CASE p.rep = "cal"  -> [p EXCEPT !.y = y1, !.b = Min2(p.b, DaysInMonth(m, y1, p.a))]
      [] p.rep = "ord"  -> [p EXCEPT !.y = y1, !.a = Min2(p.a, DaysInYear(m, y1))]
      [] OTHER          -> [p EXCEPT !.y = y1, !.a = Min2(p.a, WeeksInYear(m, y1))]

\* exact part: shift the wall clock by len, keep representation, precision form and offset
AddExactTP(m, p, len) == AtLocal(m, p, Plus3(Local(m, p), len))

\* the full addition: exact part first, then months, then years
AddDurTP(m, p, d) == AddYearsTP(m, AddMonthsTP(m, AddExactTP(m, p, d.len), d.mo), d.y)

\* clause form for recorded results (tolerant in the time of day only when fractions are involved).
\* A start point written as 24:00 denotes next-day 00:00; C05 does not say whether month/year arithmetic
\* applies to the written date or to the normalised one, and "time of day preserved" admits 24:00 itself, so for
\* such a start point with no exact part either reading is accepted (compared as instants).
AddDurClause(m, p, d, q) ==
  LET e  == AddDurTP(m, p, d)
      e2 == AddYearsTP(m, AddMonthsTP(m, p, d.mo), d.y)
      \* third reading (what the library does): months on the written date, normalise, then years
      e3 == AddYearsTP(m, AddExactTP(m, AddMonthsTP(m, p, d.mo), Zero3), d.y)
      alt == p.hh = 24 /\ d.len = Zero3
  IN
  IF ~ValidTP(m, q) THEN "result-invalid"
  ELSE IF q.hh >= 24 /\ ~alt THEN "result-hour-24"
  ELSE IF q.rep # p.rep THEN "representation-changed"
  ELSE IF ~SameZone(p, q) THEN "offset-changed"
  ELSE IF alt THEN (IF Inst(m, q) = Inst(m, e) \/ (ValidDate(m, e2) /\ Inst(m, q) = Inst(m, e2))
                       \/ (ValidDate(m, AddMonthsTP(m, p, d.mo)) /\ Inst(m, q) = Inst(m, e3)) THEN "ok" ELSE "date")
  ELSE IF Tol(p, d, q) = 0 /\ ~SameDate(e, q) THEN "date"
  ELSE IF Tol(p, d, q) = 0 /\ ~(e.sod = q.sod /\ e.us = q.us) THEN "time-of-day"
  ELSE IF Tol(p, d, q) = 1 /\ ~Near3(Inst(m, q), Inst(m, e), 1) THEN "instant"
  ELSE "ok"

\* ---------------------------------------------------------------- C02
\* the six operators as <<eq, ne, lt, le, gt, ge>> from the order of the instants
CmpVector(m, a, b) ==
  LET c == Cmp3(Inst(m, a), Inst(m, b)) IN
  <<c = 0, c # 0, c < 0, c <= 0, c > 0, c >= 0>>

\* ---------------------------------------------------------------- C04
\* d = a - b : exact, one sign throughout, |h| < 24, |m| < 60, |s| < 60, length = signed distance
OneSign(d) == (d.d >= 0 /\ d.h >= 0 /\ d.mi >= 0 /\ d.s >= 0 /\ Le3(Zero3, d.len))
           \/ (d.d <= 0 /\ d.h <= 0 /\ d.mi <= 0 /\ d.s <= 0 /\ Le3(d.len, Zero3))
SubClause(m, a, b, d) ==
  IF d.y # 0 \/ d.mo # 0 THEN "not-exact"
  ELSE IF d.wk THEN "week-form"
  \* (a fractional difference within 2 us of zero has no numerically meaningful sign)
  ELSE IF ~(OneSign(d) \/ (d.frac /\ Near3(d.len, Zero3, 2))) THEN "mixed-signs"
  ELSE IF Abs(d.h) >= 24 THEN "hours-out-of-range"
  ELSE IF Abs(d.mi) >= 60 THEN "minutes-out-of-range"
  ELSE IF Abs(d.s) >= 60 THEN "seconds-out-of-range"
  ELSE IF ~Near3(d.len, Minus3(Inst(m, a), Inst(m, b)), IF a.frac \/ b.frac \/ d.frac THEN 2 ELSE 0) THEN "distance"
  ELSE "ok"

\* ---------------------------------------------------------------- C06
ToZoneClause(m, p, zh, zm, q) ==
  IF ~ValidTP(m, q) THEN "result-invalid"
  ELSE IF q.rep # p.rep THEN "representation-changed"
  ELSE IF ~(q.zh = zh /\ q.zm = zm) THEN "offset-not-as-requested"
  ELSE IF ~Near3(Inst(m, q), Inst(m, p), IF p.frac \/ q.frac THEN 1 ELSE 0) THEN "instant"
  ELSE "ok"

\* ---------------------------------------------------------------- C11
DurAddFn(a, b) == [y |-> a.y + b.y, mo |-> a.mo + b.mo, len |-> Plus3(a.len, b.len)]
DurMulFn(a, n) == [y |-> a.y * n, mo |-> a.mo * n, len |-> Mul3(a.len, n)]
DurSame(x, d)  == x.y = d.y /\ x.mo = d.mo /\ x.len = d.len
DurNear(x, d)  == x.y = d.y /\ x.mo = d.mo /\ Near3(x.len, d.len, 2)
DurCmpVector(m, a, b) ==
  LET c == Cmp3(DurRough(m, a), DurRough(m, b)) IN <<c < 0, c <= 0, c > 0, c >= 0>>

\* ---------------------------------------------------------------- C12 / C13 / C14
\* k-th point (0-based) of the forward series from s, and of the backward series from e
RECURSIVE FwdPoint(_, _, _, _)
FwdPoint(m, s, d, k) == IF k = 0 THEN s ELSE FwdPoint(m, AddDurTP(m, s, d), d, k - 1)
RECURSIVE BwdPoint(_, _, _, _)
BwdPoint(m, e, d, k) == IF k = 0 THEN e ELSE BwdPoint(m, AddDurTP(m, e, DurNeg(d)), d, k - 1)

\* ---------------------------------------------------------------- C18
\* the exact (hours, minutes) split of an offset of o whole minutes: both parts carry the sign
LocalZoneFn(o) == IF o < 0 THEN <<-((-o) \div 60), -((-o) % 60)>> ELSE <<o \div 60, o % 60>>
\* effective offset in minutes for a system configuration (timezone/altzone are seconds WEST of UTC)
EffectiveOffsetSec(tzsec, altsec, daylight, isdst) ==
  IF isdst = 1 /\ daylight # 0 THEN -altsec ELSE -tzsec

\* ---------------------------------------------------------------- C20
\* t: [hh, mi, ss (each -1 = unspecified), dom, doy, dow, woy (0 = unspecified), zu, zh, zm]
\* effective time fields: a specified hour zeroes unspecified minutes and seconds, a specified minute zeroes seconds
\* (hour 24 names the end of a day: the hour sought is hour 0 - of the next day, since the match must not precede p)
TrH(t) == IF t.hh = 24 THEN 0 ELSE t.hh
TrM(t) == IF t.mi >= 0 THEN t.mi ELSE IF t.hh >= 0 THEN 0 ELSE -1
TrS(t) == IF t.ss >= 0 THEN t.ss ELSE IF t.hh >= 0 \/ t.mi >= 0 THEN 0 ELSE -1
TruncHasTime(t) == t.hh >= 0 \/ t.mi >= 0 \/ t.ss >= 0
DayMatches(m, t, day) ==
  /\ (t.dom > 0 => CalOf(m, day)[3] = t.dom)
  /\ (t.doy > 0 => OrdOf(m, day)[2] = t.doy)
  /\ (t.dow > 0 => Weekday(day) = t.dow)
  /\ (t.woy > 0 => WeekOf(m, day)[2] = t.woy)
TimeMatches(t, sod, us, psod) ==
  IF ~TruncHasTime(t) THEN sod = psod                      \* no time field named: time of day unchanged
  ELSE /\ us = 0
       /\ (TrH(t) >= 0 => sod \div 3600 = TrH(t))
       /\ (TrM(t) >= 0 => (sod % 3600) \div 60 = TrM(t))
       /\ (TrS(t) >= 0 => sod % 60 = TrS(t))
\* least matching second-of-day >= t0 (-1 if none on this day)
LeastTime(t, t0, psod) ==
  IF ~TruncHasTime(t) THEN (IF psod >= t0 THEN psod ELSE -1)
  ELSE IF TrH(t) >= 0 THEN
       LET x == TrH(t) * 3600 + TrM(t) * 60 + TrS(t) IN IF x >= t0 THEN x ELSE -1
  ELSE IF TrM(t) >= 0 THEN
       LET base == TrM(t) * 60 + TrS(t)
           h == IF t0 <= base THEN 0 ELSE ((t0 - base) + 3599) \div 3600
       IN IF h <= 23 THEN h * 3600 + base ELSE -1
  ELSE LET mm == IF t0 <= TrS(t) THEN 0 ELSE ((t0 - TrS(t)) + 59) \div 60
       IN IF mm <= 1439 THEN mm * 60 + TrS(t) ELSE -1
\* p, q read in the zone in which t is to be read (t's own offset if it has one, else p's): local <<day, sod, us>>
InZone(m, x, zh, zm) == Norm3(<<LocalDay(m, x), x.sod - ZoneSec(x.zh, x.zm) + ZoneSec(zh, zm), x.us>>)
AddTruncClause(m, t, p, q) ==
  LET zh == IF t.zu THEN p.zh ELSE t.zh   zm == IF t.zu THEN p.zm ELSE t.zm
      lp == InZone(m, p, zh, zm)   lq == InZone(m, q, zh, zm)
  IN
  IF ~ValidTP(m, q) THEN "result-invalid"
  ELSE IF ~SameZone(p, q) THEN "offset-not-p's"
  ELSE IF ~DayMatches(m, t, lq[1]) THEN "day-designator-not-matched"
  ELSE IF ~TimeMatches(t, lq[2], lq[3], lp[2]) THEN "time-fields-not-matched"
  ELSE IF Lt3(lq, lp) THEN "earlier-than-p"
  \* leastness: no matching day strictly between; on p's own day no matching time >= p; on q's day the least time
  ELSE IF \E d \in (lp[1] + 1)..(lq[1] - 1) : DayMatches(m, t, d) THEN "earlier-matching-day-exists"
  ELSE IF lq[1] > lp[1] /\ DayMatches(m, t, lp[1]) /\ LeastTime(t, lp[2] + (IF lp[3] > 0 THEN 1 ELSE 0), lp[2]) >= 0 THEN "earlier-match-on-p's-day"
  ELSE IF lq[2] # LeastTime(t, IF lq[1] = lp[1] THEN lp[2] ELSE 0, lp[2]) THEN "not-the-earliest-time-of-day"
  ELSE "ok"
=============================================================================
