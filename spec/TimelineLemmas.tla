--------------------------- MODULE TimelineLemmas ---------------------------
(* Unbounded integer lemmas about the <<day, second, microsecond>> triples of Val.tla on which every statement about
   instants in this specification rests (C01, C02, C04, C05, C06, C12-C14, C18, C20).  Discharged by Apalache for ALL
   integers (thorough tier of C02): Norm3 yields the canonical representative of the microsecond count V(t) and keeps
   it; Plus3 / Minus3 / Neg3 are +, -, unary minus on V; Lt3 is < on V for canonical triples; Near3(a, b, tol) is
   |V(a) - V(b)| <= tol.  So the triple arithmetic is exact integer arithmetic on microseconds, whatever the size of
   the operands (TLC itself evaluates it with 32-bit limbs, which is why triples are used at all).
   (The definitions repeat Val.tla verbatim, with Apalache type annotations.) *)
EXTENDS Integers
VARIABLES
  \* @type: Int;
  a1,
  \* @type: Int;
  a2,
  \* @type: Int;
  a3,
  \* @type: Int;
  b1,
  \* @type: Int;
  b2,
  \* @type: Int;
  b3,
  \* @type: Int;
  tol
DAY == 86400
MEG == 1000000
\* @type: (<<Int, Int, Int>>) => <<Int, Int, Int>>;
Norm3(t) ==
  LET u == t[3] % MEG
      s0 == t[2] + (t[3] \div MEG)
      s == s0 % DAY
      d == t[1] + (s0 \div DAY)
  IN <<d, s, u>>
\* @type: (<<Int, Int, Int>>, <<Int, Int, Int>>) => <<Int, Int, Int>>;
Plus3(a, b)  == Norm3(<<a[1] + b[1], a[2] + b[2], a[3] + b[3]>>)
\* @type: (<<Int, Int, Int>>, <<Int, Int, Int>>) => <<Int, Int, Int>>;
Minus3(a, b) == Norm3(<<a[1] - b[1], a[2] - b[2], a[3] - b[3]>>)
\* @type: (<<Int, Int, Int>>) => <<Int, Int, Int>>;
Neg3(a)      == Norm3(<<-a[1], -a[2], -a[3]>>)
\* @type: (<<Int, Int, Int>>, <<Int, Int, Int>>) => Bool;
Lt3(a, b) == \/ a[1] < b[1]
             \/ a[1] = b[1] /\ a[2] < b[2]
             \/ a[1] = b[1] /\ a[2] = b[2] /\ a[3] < b[3]
\* @type: (<<Int, Int, Int>>, <<Int, Int, Int>>, Int) => Bool;
Near3(a, b, t) ==
  LET x == Minus3(a, b) IN
    \/ x[1] = 0 /\ x[2] = 0 /\ x[3] <= t
    \/ x[1] = -1 /\ x[2] = DAY - 1 /\ x[3] >= MEG - t
\* the microsecond count a triple denotes
\* @type: (<<Int, Int, Int>>) => Int;
V(t) == (t[1] * DAY + t[2]) * MEG + t[3]
\* @type: (<<Int, Int, Int>>) => Bool;
Canon(t) == t[2] >= 0 /\ t[2] < DAY /\ t[3] >= 0 /\ t[3] < MEG

\* @type: (Int, Int, Int) => <<Int, Int, Int>>;
T(x, y, z) == <<x, y, z>>
Init == a1 \in Int /\ a2 \in Int /\ a3 \in Int /\ b1 \in Int /\ b2 \in Int /\ b3 \in Int /\ tol \in Int
Next == UNCHANGED <<a1, a2, a3, b1, b2, b3, tol>>
Lemmas ==
  LET a == T(a1, a2, a3)  b == T(b1, b2, b3)  na == Norm3(T(a1, a2, a3))  nb == Norm3(T(b1, b2, b3)) IN
  /\ Canon(na) /\ V(na) = V(a)
  /\ (Canon(a) => na = a)
  /\ (V(na) = V(nb) => na = nb)
  /\ V(Plus3(a, b)) = V(a) + V(b) /\ Canon(Plus3(a, b))
  /\ V(Minus3(a, b)) = V(a) - V(b) /\ Canon(Minus3(a, b))
  /\ V(Neg3(a)) = -V(a)
  /\ (Lt3(na, nb) <=> V(a) < V(b))
  /\ ((tol >= 0 /\ tol < MEG) => (Near3(na, nb, tol) <=> (V(a) - V(b) <= tol /\ V(b) - V(a) <= tol)))
=============================================================================
