------------------------------- MODULE MC_C20 -------------------------------
EXTENDS ImplTrunc, Json
CONSTANTS Shapes, AllowKnownClass
MkP(mm, n, s) ==
  LET dt == CalOf(mm, n) IN
  [rep |-> "cal", y |-> dt[1], a |-> dt[2], b |-> dt[3], prec |-> "hms", hh |-> s \div 3600, mi |-> (s % 3600) \div 60,
   ss |-> s % 60, sod |-> s, us |-> 0, fu |-> 0, frac |-> FALSE, zh |-> 0, zm |-> 0, xd |-> 0]
T(hh, mi, ss, dom, doy, dow, woy) == [hh |-> hh, mi |-> mi, ss |-> ss, dom |-> dom, doy |-> doy, dow |-> dow, woy |-> woy,
                                      zu |-> TRUE, zh |-> 0, zm |-> 0]
Times == {<<24, -1, -1>>, <<6, -1, -1>>, <<23, 30, -1>>, <<0, 0, 15>>, <<-1, 30, -1>>, <<-1, 5, 59>>, <<-1, -1, 15>>, <<-1, -1, -1>>}
DaysD == {<<0, 0, 0, 0>>, <<1, 0, 0, 0>>, <<29, 0, 0, 0>>, <<30, 0, 0, 0>>, <<31, 0, 0, 0>>, <<0, 1, 0, 0>>, <<0, 60, 0, 0>>,
          <<0, 366, 0, 0>>, <<0, 0, 1, 0>>, <<0, 0, 7, 0>>, <<0, 0, 3, 1>>, <<0, 0, 7, 52>>, <<0, 0, 1, 53>>}
Starts == {<<2019, 12, 31>>, <<2020, 1, 30>>, <<2020, 2, 28>>, <<2020, 2, 29>>, <<2020, 12, 28>>, <<2021, 1, 3>>}
Sods == {0, 3599, 21600, 45296, 86399}
Known(tm, dd) == tm[1] < 0 /\ (tm[2] >= 0 \/ tm[3] >= 0) /\ dd # <<0, 0, 0, 0>>
\* the constructor's bounds for a year-less point in mode mm
Constructible(mm, dd) ==
  /\ dd[1] <= (IF mm = "360day" THEN 30 ELSE 31)
  /\ dd[2] <= DaysInYear(mm, 2000)
  /\ dd[4] <= (IF mm = "360day" /\ ~Week53Everywhere THEN 52 ELSE 53)
Init ==
  /\ m \in Modes
  /\ \E tm \in Times, dd \in DaysD, st \in Starts, s \in Sods :
       /\ ValidCal(m, st[1], st[2], st[3]) /\ Constructible(m, dd)
       /\ (tm # <<-1, -1, -1>> \/ dd # <<0, 0, 0, 0>>)
       /\ (AllowKnownClass \/ ~Known(tm, dd))
       /\ t = T(tm[1], tm[2], tm[3], dd[1], dd[2], dd[3], dd[4])
       /\ p0 = MkP(m, DayNumCal(m, st[1], st[2], st[3]), s)
  /\ day = LocalDay(m, p0) /\ sod = p0.sod /\ later = FALSE /\ phase = "s" /\ steps = 0
Spec == Init /\ [][Next]_vars
EmitGen == steps = 0 => PrintT(<<"GEN", ToJson(<<m, t.hh, t.mi, t.ss, t.dom, t.doy, t.dow, t.woy, p0.y, p0.a, p0.b, p0.sod>>)>>)
OnlyInit == steps = 0
Off == FALSE
On == TRUE
=============================================================================
