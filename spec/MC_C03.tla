------------------------------- MODULE MC_C03 -------------------------------
(* C03 on the specification alone: the calendar definition is self-consistent on every day of
   YMin..YMax in every mode.  The state space fans out through Next (one state per (mode, year),
   the invariant ranges over every day of that year) so that all TLC workers are used. *)
EXTENDS Cal, TLC
CONSTANTS YMin, YMax
YMinFull == -401
VARIABLES m, y
Init == m \in Modes /\ y = YMin
Next == y < YMax /\ y' = y + 1 /\ m' = m
Days == YearStart(m, y) .. (YearStart(m, y + 1) - 1)
\* conversions are total, mutually inverse and in range
Inverse == \A n \in Days :
  LET c == CalOf(m, n)  o == OrdOf(m, n)  w == WeekOf(m, n) IN
    /\ ValidCal(m, c[1], c[2], c[3]) /\ DayNumCal(m, c[1], c[2], c[3]) = n
    /\ ValidOrd(m, o[1], o[2]) /\ DayNumOrd(m, o[1], o[2]) = n
    /\ ValidWeek(m, w[1], w[2], w[3]) /\ DayNumWeek(m, w[1], w[2], w[3]) = n
    /\ c[1] = y /\ o[1] = y
\* Monday = 1, weekdays continuous, week 1 contains 4 January
WeekRule ==
  /\ \A n \in Days : WeekOf(m, n)[3] = Weekday(n) /\ Weekday(n + 1) = (Weekday(n) % 7) + 1
  /\ WeekOf(m, DayNumCal(m, y, 1, 4))[1] = y /\ WeekOf(m, DayNumCal(m, y, 1, 4))[2] = 1
  /\ Weekday(WeekYearStart(m, y)) = 1
  /\ WeeksInYear(m, y) \in (IF m = "360day" THEN {51, 52} ELSE {52, 53})
\* year lengths add up and month tables agree with the mode
Lengths ==
  /\ YearStart(m, y + 1) - YearStart(m, y) = DaysInYear(m, y)
  /\ DaysInYear(m, y) = (CASE m = "360day" -> 360 [] m = "365day" -> 365 [] m = "366day" -> 366
                           [] OTHER -> IF IsLeap(m, y) THEN 366 ELSE 365)
  /\ DaysInYearRange(m, y - 3, y + 3) = DaysInYear(m, y-3) + DaysInYear(m, y-2) + DaysInYear(m, y-1)
        + DaysInYear(m, y) + DaysInYear(m, y+1) + DaysInYear(m, y+2) + DaysInYear(m, y+3)
  /\ Weekday(2) = 1 /\ DayNumCal(m, 2000, 1, 3) = 2
=============================================================================
