------------------------------- MODULE Val -------------------------------
(***************************************************************************)
(* Value records of the data model and the integer timeline.               *)
(*                                                                         *)
(* A time point record (the projection the harness logs, and what the      *)
(* model-checking instances enumerate):                                    *)
(*   [rep |-> "cal"|"ord"|"week", y, a, b,    date fields (b = 0 for ord)  *)
(*    prec |-> "h"|"hm"|"hms",                which time fields it carries *)
(*    hh, mi, ss,                             integer parts (-1 = absent)  *)
(*    sod, us, frac,                          exact local time of day      *)
(*    zh, zm, xd]                             UTC offset, expanded digits  *)
(* A duration record:                                                      *)
(*   [wk, y, mo, d, h, mi, s, len |-> <<D,S,U>>, frac]                     *)
(* where len is the exact part (weeks/days/hours/minutes/seconds) as a     *)
(* floor-normalised <<days, seconds, microseconds>> triple.                *)
(* Instants are <<day, sec, usec>> triples: TLC integers are 32 bit, so    *)
(* the timeline is never a single count of seconds.                        *)
(***************************************************************************)
EXTENDS Cal, TLC

Abs(x) == IF x < 0 THEN -x ELSE x
Min2(a, b) == IF a < b THEN a ELSE b
Max2(a, b) == IF a > b THEN a ELSE b
Sign(x) == IF x < 0 THEN -1 ELSE IF x > 0 THEN 1 ELSE 0

DAY == 86400
MEG == 1000000

\* ---- triples <<days, seconds, microseconds>> ------------------------------------------
Norm3(t) ==
  LET u == t[3] % MEG
      s0 == t[2] + (t[3] \div MEG)
      s == s0 % DAY
      d == t[1] + (s0 \div DAY)
  IN <<d, s, u>>
Plus3(a, b)  == Norm3(<<a[1] + b[1], a[2] + b[2], a[3] + b[3]>>)
Minus3(a, b) == Norm3(<<a[1] - b[1], a[2] - b[2], a[3] - b[3]>>)
Neg3(a)      == Norm3(<<-a[1], -a[2], -a[3]>>)
Zero3 == <<0, 0, 0>>
Lt3(a, b) == \/ a[1] < b[1]
             \/ a[1] = b[1] /\ a[2] < b[2]
             \/ a[1] = b[1] /\ a[2] = b[2] /\ a[3] < b[3]
Le3(a, b) == a = b \/ Lt3(a, b)
Cmp3(a, b) == IF a = b THEN 0 ELSE IF Lt3(a, b) THEN -1 ELSE 1
\* |a - b| <= tol microseconds  (tol < 10^6)
Near3(a, b, tol) ==
  LET x == Minus3(a, b) IN
    \/ x[1] = 0 /\ x[2] = 0 /\ x[3] <= tol
    \/ x[1] = -1 /\ x[2] = DAY - 1 /\ x[3] >= MEG - tol
\* n * t for a small integer n (n applied component-wise before normalising; callers keep |n*S| < 2^31)
Mul3(t, n) == Norm3(<<t[1] * n, t[2] * n, t[3] * n>>)

\* ---- time zones --------------------------------------------------------------------------
ValidZone(zh, zm) ==
  /\ zh \in -99..99 /\ zm \in -59..59
  /\ (zh > 0 => zm >= 0) /\ (zh < 0 => zm <= 0)
ZoneSec(zh, zm) == zh * 3600 + zm * 60

\* ---- time points -------------------------------------------------------------------------
\* (years beyond +-5 000 000 have day numbers outside TLC's 32-bit integers: no driver generates them, and a
\*  value that carries one - e.g. digits mis-read by a broken parser - is rejected as invalid instead of evaluated)
YearInModel(y) == y >= -5000000 /\ y <= 5000000
ValidDate(m, p) ==
  IF ~YearInModel(p.y) THEN FALSE ELSE
  CASE p.rep = "cal"  -> ValidCal(m, p.y, p.a, p.b)
    [] p.rep = "ord"  -> ValidOrd(m, p.y, p.a)
    [] p.rep = "week" -> ValidWeek(m, p.y, p.a, p.b)
    [] OTHER -> FALSE

\* time-of-day fields are in range and agree with the exact second-of-day.  For a point with a fractional
\* unit the logged second-of-day is rounded to the nearest microsecond while the integer parts are truncated,
\* so the two may differ by the one unit that rounding carries (59.9999999 s -> ss = 59, sod ends in :00).
ValidTime(p) ==
  LET slack == IF p.frac THEN 1 ELSE 0 IN
  /\ p.hh \in 0..24 /\ p.us \in 0..(MEG - 1) /\ p.sod \in 0..DAY
  /\ (p.hh = 24 => p.sod = DAY /\ p.us = 0)
  /\ (p.hh < 24 => p.sod < DAY)
  /\ CASE p.prec = "hms" -> p.mi \in 0..59 /\ p.ss \in 0..59 /\ p.sod - (p.hh * 3600 + p.mi * 60 + p.ss) \in 0..slack
       [] p.prec = "hm"  -> p.mi \in 0..59 /\ p.sod - (p.hh * 3600 + p.mi * 60) \in 0..(59 + slack)
       [] p.prec = "h"   -> p.sod - p.hh * 3600 \in 0..(3599 + slack) \/ (p.hh = 24 /\ p.sod = DAY)
       [] OTHER -> FALSE

ValidTP(m, p) == ValidDate(m, p) /\ ValidTime(p) /\ ValidZone(p.zh, p.zm)
\* the stricter range C01 demands of a computed result: 0 <= h < 24
ValidResultTP(m, p) == ValidTP(m, p) /\ p.hh < 24

LocalDay(m, p) ==
  CASE p.rep = "cal"  -> DayNumCal(m, p.y, p.a, p.b)
    [] p.rep = "ord"  -> DayNumOrd(m, p.y, p.a)
    [] OTHER          -> DayNumWeek(m, p.y, p.a, p.b)

\* local (wall clock) position and the instant on the UTC timeline; 24:00 is next day 00:00 by Norm3
Local(m, p) == Norm3(<<LocalDay(m, p), p.sod, p.us>>)
Inst(m, p)  == Norm3(<<LocalDay(m, p), p.sod - ZoneSec(p.zh, p.zm), p.us>>)

\* the civil calendar date of p's local day, whatever its representation
CivilDate(m, p) == CalOf(m, LocalDay(m, p))

\* date fields <<y,a,b>> of day n in representation rep
DateOf(m, rep, n) ==
  CASE rep = "cal" -> CalOf(m, n)
    [] rep = "ord" -> <<OrdOf(m, n)[1], OrdOf(m, n)[2], 0>>
    [] OTHER       -> WeekOf(m, n)

\* build a time point of representation/precision/zone like p at local position loc = <<day, sec, us>>
AtLocal(m, p, loc) ==
  LET dt == DateOf(m, p.rep, loc[1]) IN
  [p EXCEPT !.y = dt[1], !.a = dt[2], !.b = dt[3], !.sod = loc[2], !.us = loc[3],
            !.hh = loc[2] \div 3600,
            !.mi = IF p.prec = "h" THEN -1 ELSE (loc[2] % 3600) \div 60,
            !.ss = IF p.prec = "hms" THEN loc[2] % 60 ELSE -1]

\* semantic sameness of two time point records (ignores integer-part bookkeeping and flags)
SameDate(p, q) == p.rep = q.rep /\ p.y = q.y /\ p.a = q.a /\ p.b = q.b
SameZone(p, q) == p.zh = q.zh /\ p.zm = q.zm
SameTP(p, q)   == SameDate(p, q) /\ SameZone(p, q) /\ p.sod = q.sod /\ p.us = q.us

\* ---- durations ------------------------------------------------------------------------------
DurExact(d) == d.y = 0 /\ d.mo = 0
DurLen(d)   == d.len
DurIsZero(d) == d.y = 0 /\ d.mo = 0 /\ d.len = Zero3
\* equality as C11 states it: nominal parts equal and exact remainder equal
DurEq(a, b) == a.y = b.y /\ a.mo = b.mo /\ a.len = b.len
\* ordering key: a year counts as the mode's common-year length, a month as 30 days
DurRough(m, d) == Norm3(<<d.y * DaysInYear(m, 2001) + d.mo * 30 + d.len[1], d.len[2], d.len[3]>>)
\* negation (only the fields the specification's functions read)
DurNeg(d) == [d EXCEPT !.y = -d.y, !.mo = -d.mo, !.len = Neg3(d.len)]
=============================================================================
