INIT Init
NEXT Next
INVARIANT Split
INVARIANT Spellings
CHECK_DEADLOCK FALSE
