------------------------------- MODULE MC_C09 -------------------------------
(* C09 on the specification: the acceptance tables ValidCal / ValidOrd / ValidWeek agree with the calendar
   definition - a field tuple is valid exactly when some day of the calendar converts to it - for every year
   type and mode, over field values in and around the legal ranges. *)
EXTENDS Val
Years == {1900, 1999, 2000, 2003, 2004, 2015, 2020, 2100, 0, -1, -4}
VARIABLES m, y
Init == m \in Modes /\ y \in Years
Next == UNCHANGED <<m, y>>
Days == (YearStart(m, y - 1))..(YearStart(m, y + 2) - 1)
YearDays == YearStart(m, y)..(YearStart(m, y + 1) - 1)
CalTable == LET S == {CalOf(m, n) : n \in YearDays} IN
  \A mo \in -1..14 : \A d \in -1..33 : ValidCal(m, y, mo, d) <=> <<y, mo, d>> \in S
OrdTable == LET S == {OrdOf(m, n) : n \in YearDays} IN
  \A doy \in -1..368 : ValidOrd(m, y, doy) <=> <<y, doy>> \in S
WeekTable == LET S == {WeekOf(m, n) : n \in Days} IN
  \A w \in -1..55 : \A d \in -1..9 : ValidWeek(m, y, w, d) <=> <<y, w, d>> \in S
ZoneTable == \A zh \in {-100, -99, -1, 0, 1, 99, 100} : \A zm \in {-60, -59, -1, 0, 1, 59, 60} :
  ValidZone(zh, zm) <=> (Abs(zh) <= 99 /\ Abs(zm) <= 59 /\ ~(zh > 0 /\ zm < 0) /\ ~(zh < 0 /\ zm > 0))
=============================================================================
