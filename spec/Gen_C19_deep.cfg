SPECIFICATION Spec
CONSTANTS Spellings <- Spellings4
          Probes <- ProbesSmall
          Unkeyed <- NoFns
          CliOpts <- CliO
          CliEnvs <- CliE
          EnvOverridesOption <- Off
          MaxDepth = 3
INVARIANT EmitGen
CHECK_DEADLOCK FALSE
