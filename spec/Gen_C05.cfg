SPECIFICATION Spec
CONSTANTS ClampUsesLeapTable <- Off
          NoWeek53Clamp <- Off
          Day366To364 <- Off
INVARIANT EmitGen
CONSTRAINT OnlyInit
CHECK_DEADLOCK FALSE
