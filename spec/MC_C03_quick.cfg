INIT Init
NEXT Next
CONSTANTS YMin = 1890 YMax = 2110
INVARIANT Inverse
INVARIANT WeekRule
INVARIANT Lengths
CHECK_DEADLOCK FALSE
