INIT Init
NEXT Next
INVARIANT CalTable
INVARIANT OrdTable
INVARIANT WeekTable
INVARIANT ZoneTable
CHECK_DEADLOCK FALSE
