SPECIFICATION Spec
CONSTANT MaxDepth = 3
INVARIANT TypeOK
PROPERTY Immutable
PROPERTY AppendOnly
CHECK_DEADLOCK FALSE
