SPECIFICATION Spec
CONSTANTS Spellings <- Spellings4
          Probes <- ProbesAll
          Unkeyed <- U8
          CliOpts <- NoCli
          CliEnvs <- NoCli
          EnvOverridesOption <- Off
          MaxDepth = 4
INVARIANT ModeDetermines
INVARIANT CacheSound
INVARIANT TypeOK
VIEW View
CHECK_DEADLOCK FALSE
