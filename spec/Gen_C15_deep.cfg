SPECIFICATION Spec
CONSTANTS Spellings <- SpellingsAll
          Probes <- ProbesSmall
          Unkeyed <- NoFns
          MaxDepth = 4
INVARIANT EmitGen
CHECK_DEADLOCK FALSE
