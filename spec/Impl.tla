------------------------------- MODULE Impl -------------------------------
(***************************************************************************)
(* IMPLEMENTATION-SHAPED layer: TimePoint.__add__(exact Duration) and the  *)
(* carry chain of TimePoint._tick_over as the library performs them, one   *)
(* action per step (whole seconds, hh:mm:ss form; the three date           *)
(* representations).  The library adds seconds, minutes, hours and days in *)
(* four phases and runs the whole carry chain after each phase:            *)
(*   second -> minute -> hour -> day field -> (weekday -> week) |          *)
(*   (day-of-month -> month -> year) | (day-of-year -> year) -> week-year  *)
(* Every loop of the code is a loop here (one iteration per action), so    *)
(* TLC checks termination (a variant bound) as well as the result.         *)
(*                                                                         *)
(* Deliberate abstraction: _tick_over_day_of_month walks the calendar one  *)
(* day at a time; here it moves one month at a time (same fix-point).      *)
(* Sensitivity knobs (constants) switch on design faults that TLC must     *)
(* reject: OrdinalCarryUsesNextYear (the defect fixed by 1bed456),         *)
(* WeekCarryUsesNextYear, BackwardOrdinalUsesThisYear.                     *)
(***************************************************************************)
EXTENDS Ops

CONSTANTS OrdinalCarryUsesNextYear, WeekCarryUsesNextYear, BackwardOrdinalUsesThisYear

VARIABLES m,        \* calendar mode
          p0, d0,   \* the operands (records as in Val.tla)
          f,        \* working fields [y, a, b, hh, mi, ss] of the copy being ticked over (rep is p0.rep)
          phase,    \* "s" | "mi" | "h" | "d" | "done": which unit of the duration is being added
          stage,    \* position in the carry chain
          steps     \* number of actions taken (termination variant)
vars == <<m, p0, d0, f, phase, stage, steps>>

Rep == p0.rep
NextPhase(ph) == CASE ph = "s" -> "mi" [] ph = "mi" -> "h" [] ph = "h" -> "d" [] OTHER -> "done"

\* begin a phase: add the unit to its field (the code skips the phase, and its tick-over, when the amount is zero)
Begin ==
  /\ stage = "idle" /\ phase # "done"
  /\ LET amt == CASE phase = "s" -> d0.s [] phase = "mi" -> d0.mi [] phase = "h" -> d0.h [] OTHER -> d0.d IN
       IF amt = 0 THEN /\ phase' = NextPhase(phase) /\ UNCHANGED <<f, stage>>
       ELSE /\ f' = CASE phase = "s"  -> [f EXCEPT !.ss = f.ss + amt]
                      [] phase = "mi" -> [f EXCEPT !.mi = f.mi + amt]
                      [] phase = "h"  -> [f EXCEPT !.hh = f.hh + amt]
                      [] OTHER -> IF Rep = "cal" THEN [f EXCEPT !.b = f.b + amt]
                                  ELSE IF Rep = "ord" THEN [f EXCEPT !.a = f.a + amt]
                                  ELSE [f EXCEPT !.b = f.b + amt]
            /\ stage' = "sec" /\ UNCHANGED phase
  /\ UNCHANGED <<m, p0, d0>>

TickSec  == /\ stage = "sec"
            /\ f' = [f EXCEPT !.mi = f.mi + (f.ss \div 60), !.ss = f.ss % 60]
            /\ stage' = "min" /\ UNCHANGED <<m, p0, d0, phase>>
TickMin  == /\ stage = "min"
            /\ f' = [f EXCEPT !.hh = f.hh + (f.mi \div 60), !.mi = f.mi % 60]
            /\ stage' = "hour" /\ UNCHANGED <<m, p0, d0, phase>>
TickHour == /\ stage = "hour"
            /\ LET nd == f.hh \div 24 IN
                 f' = IF Rep = "ord" THEN [f EXCEPT !.a = f.a + nd, !.hh = f.hh % 24]
                      ELSE [f EXCEPT !.b = f.b + nd, !.hh = f.hh % 24]
            /\ stage' = (IF Rep = "week" THEN "dow" ELSE IF Rep = "cal" THEN "dom" ELSE "doy")
            /\ UNCHANGED <<m, p0, d0, phase>>
\* weekday overflow into weeks (divmod, no loop)
TickDow  == /\ stage = "dow"
            /\ f' = [f EXCEPT !.a = f.a + ((f.b - 1) \div 7), !.b = ((f.b - 1) % 7) + 1]
            /\ stage' = "week" /\ UNCHANGED <<m, p0, d0, phase>>
\* week number overflow into week-years, one year per action
TickWeek ==
  /\ stage = "week"
  /\ IF f.a < 1 THEN /\ f' = [f EXCEPT !.a = f.a + WeeksInYear(m, f.y - 1), !.y = f.y - 1] /\ UNCHANGED stage
     ELSE IF f.a > WeeksInYear(m, f.y)
          THEN /\ f' = [f EXCEPT !.a = f.a - WeeksInYear(m, IF WeekCarryUsesNextYear THEN f.y + 1 ELSE f.y), !.y = f.y + 1]
               /\ UNCHANGED stage
     ELSE /\ stage' = "end" /\ UNCHANGED f
  /\ UNCHANGED <<m, p0, d0, phase>>
\* day-of-month overflow, one month per action (the code walks day by day to the same place)
TickDom ==
  /\ stage = "dom"
  /\ IF f.b < 1 THEN
       LET pm == IF f.a = 1 THEN 12 ELSE f.a - 1   py == IF f.a = 1 THEN f.y - 1 ELSE f.y IN
       /\ f' = [f EXCEPT !.y = py, !.a = pm, !.b = f.b + DaysInMonth(m, py, pm)] /\ UNCHANGED stage
     ELSE IF f.b > DaysInMonth(m, f.y, f.a) THEN
       /\ f' = [f EXCEPT !.b = f.b - DaysInMonth(m, f.y, f.a), !.a = IF f.a = 12 THEN 1 ELSE f.a + 1,
                         !.y = IF f.a = 12 THEN f.y + 1 ELSE f.y]
       /\ UNCHANGED stage
     ELSE /\ stage' = "end" /\ UNCHANGED f
  /\ UNCHANGED <<m, p0, d0, phase>>
\* day-of-year overflow, one year per action
TickDoy ==
  /\ stage = "doy"
  /\ IF f.a < 1 THEN
       /\ f' = [f EXCEPT !.a = f.a + DaysInYear(m, IF BackwardOrdinalUsesThisYear THEN f.y ELSE f.y - 1), !.y = f.y - 1]
       /\ UNCHANGED stage
     ELSE IF f.a > DaysInYear(m, f.y) THEN
       /\ f' = [f EXCEPT !.a = f.a - DaysInYear(m, IF OrdinalCarryUsesNextYear THEN f.y + 1 ELSE f.y), !.y = f.y + 1]
       /\ UNCHANGED stage
     ELSE /\ stage' = "end" /\ UNCHANGED f
  /\ UNCHANGED <<m, p0, d0, phase>>
EndChain == /\ stage = "end" /\ stage' = "idle" /\ phase' = NextPhase(phase) /\ UNCHANGED <<m, p0, d0, f>>

Cnt == steps' = steps + 1
Next == \/ (Begin /\ Cnt) \/ (TickSec /\ Cnt) \/ (TickMin /\ Cnt) \/ (TickHour /\ Cnt) \/ (TickDow /\ Cnt) \/ (TickWeek /\ Cnt)
        \/ (TickDom /\ Cnt) \/ (TickDoy /\ Cnt) \/ (EndChain /\ Cnt)

\* the record the finished computation denotes
Result == [p0 EXCEPT !.y = f.y, !.a = f.a, !.b = f.b, !.hh = f.hh, !.mi = f.mi, !.ss = f.ss,
                     !.sod = f.hh * 3600 + f.mi * 60 + f.ss]

\* ---- properties ------------------------------------------------------------------------------
\* C01: when the computation has finished the result satisfies the abstract postcondition
Refines == phase = "done" => AddExactClause(m, p0, d0, Result) = "ok"
\* after each completed chain every field is back in range (24:00 survives only while no chain has run yet)
ChainNormalises == stage = "idle" => f.ss \in 0..59 /\ f.mi \in 0..59 /\ (f.hh \in 0..23 \/ (f.hh = 24 /\ p0.hh = 24))
\* termination: the number of actions is bounded by the size of the shift (years crossed) plus a constant
Variant == steps <= 60 + 4 * (Abs(d0.d) \div 28 + Abs(d0.h) \div 600 + Abs(d0.mi) \div 40000 + Abs(d0.s) \div 2400000)
=============================================================================
