------------------------------- MODULE MC_C02 -------------------------------
(* C02 / C04 on the specification: _cmp, __hash__ and TimePoint - TimePoint as implemented agree with the order and
   distance of the instants, over all ordered pairs of a universe in which many members are one instant spelled
   differently (representation, offset, 24:00) or one second apart across day / month / year boundaries. *)
EXTENDS ImplCmp
CONSTANT Sods
VARIABLES m, a, b
MkP(mm, rep, n, sod, z) ==
  LET dt == DateOf(mm, rep, n) IN
  [rep |-> rep, y |-> dt[1], a |-> dt[2], b |-> dt[3], prec |-> "hms", hh |-> sod \div 3600, mi |-> (sod % 3600) \div 60,
   ss |-> sod % 60, sod |-> sod, us |-> 0, fu |-> 0, frac |-> FALSE, zh |-> z[1], zm |-> z[2], xd |-> 0]
Days(mm) == {YearStart(mm, 2000) - 1, YearStart(mm, 2000), YearStart(mm, 2000) + 59, YearStart(mm, 2001) - 1, YearStart(mm, 0)}
Points(mm) == {MkP(mm, rep, n, sod, z) : rep \in {"cal", "ord", "week"}, n \in Days(mm), sod \in Sods,
               z \in {<<0, 0>>, <<1, 0>>, <<-3, -30>>, <<0, -30>>}}
\* fan out through Next (initial states are processed by one thread; successors by all workers)
NoB == [rep |-> "none"]
Init == m \in Modes /\ a \in Points(m) /\ b = NoB
Next == b = NoB /\ b' \in Points(m) /\ UNCHANGED <<m, a>>
CmpRefines == b = NoB \/ ImplCmpVector(m, a, b) = CmpVector(m, a, b)
HashConsistent == b = NoB \/ (Inst(m, a) = Inst(m, b) => ImplHashKey(m, a) = ImplHashKey(m, b))
SubRefines == b = NoB \/ SubClause(m, a, b, ImplSub(m, a, b)) = "ok"
Antisymmetric == b = NoB \/ ImplSub(m, a, b).len = Neg3(ImplSub(m, b, a).len)
SodsQuick == {0, 86399, 86400}
SodsFull == {0, 1, 84600, 86399, 86400}
On == TRUE
Off == FALSE
=============================================================================
