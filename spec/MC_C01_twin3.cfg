SPECIFICATION Spec
CONSTANTS OrdinalCarryUsesNextYear <- Off
          WeekCarryUsesNextYear <- Off
          BackwardOrdinalUsesThisYear <- On
INVARIANT Refines
INVARIANT ChainNormalises
INVARIANT Variant
CHECK_DEADLOCK FALSE
