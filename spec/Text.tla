------------------------------- MODULE Text -------------------------------
(***************************************************************************)
(* Notation layer: ISO 8601 texts as sequences of code points (TLC strings *)
(* cannot be indexed).  Transcribed from README.md / ISO 8601:2004 (and    *)
(* :2000 for truncation), NOT from parser_spec.py.  See DESIGN Appendix D. *)
(***************************************************************************)
EXTENDS Val

\* code points
CH0 == 48  CHPlus == 43  CHMinus == 45  CHColon == 58  CHComma == 44  CHDot == 46
CHT == 84  CHZ == 90  CHW == 87  CHP == 80  CHR == 82  CHSlash == 47  CHSpace == 32
CHY == 89  CHM == 77  CHD == 68  CHH == 72  CHS == 83

\* n >= 0 written with exactly w digits (more if it does not fit)
RECURSIVE DigitsMin(_, _)
DigitsMin(n, w) == IF n < 10 /\ w <= 1 THEN <<CH0 + n>> ELSE Append(DigitsMin(n \div 10, w - 1), CH0 + (n % 10))
Digits(n, w) == DigitsMin(n, w)
\* plain decimal, no padding
Dec(n) == DigitsMin(n, 1)
\* signed integer text as POSIX prints it (for %s)
SignedDec(n) == IF n < 0 THEN <<CHMinus>> \o Dec(-n) ELSE Dec(n)

\* ---- zones --------------------------------------------------------------
ZoneSign(zh, zm) == IF zh < 0 \/ zm < 0 THEN CHMinus ELSE CHPlus
\* style: "Z" | "hh" | "hhmm" | "hh:mm"
ZoneText(zh, zm, style) ==
  CASE style = "Z"     -> <<CHZ>>
    [] style = "hh"    -> <<ZoneSign(zh, zm)>> \o Digits(Abs(zh), 2)
    [] style = "hhmm"  -> <<ZoneSign(zh, zm)>> \o Digits(Abs(zh), 2) \o Digits(Abs(zm), 2)
    [] OTHER           -> <<ZoneSign(zh, zm)>> \o Digits(Abs(zh), 2) \o <<CHColon>> \o Digits(Abs(zm), 2)
\* the three documented spellings of the local offset: 'Z' for zero; the reduced form only when minutes are zero
LocalZoneText(zh, zm, form) ==
  IF zh = 0 /\ zm = 0 THEN <<CHZ>>
  ELSE CASE form = "extended" -> ZoneText(zh, zm, "hh:mm")
         [] form = "reduced" /\ zm = 0 -> ZoneText(zh, zm, "hh")
         [] OTHER -> ZoneText(zh, zm, "hhmm")


\* ---- generic helpers -----------------------------------------------------------------------
Pow10T(k) == CASE k = 0 -> 1 [] k = 1 -> 10 [] k = 2 -> 100 [] k = 3 -> 1000 [] k = 4 -> 10000 [] k = 5 -> 100000
               [] k = 6 -> 1000000 [] k = 7 -> 10000000 [] k = 8 -> 100000000 [] OTHER -> 1000000000
RECURSIVE DigitsVal(_, _)
\* value of the first k digits of a digit sequence ds (digits are 0..9, not code points)
DigitsVal(ds, k) == IF k = 0 THEN 0 ELSE DigitsVal(ds, k - 1) * 10 + ds[k]
\* a decimal fraction 0.ds in micro-units, truncated after 6 digits (callers allow +1 for the rounding of longer inputs)
Micro6(ds) == IF Len(ds) >= 6 THEN DigitsVal(ds, 6) ELSE DigitsVal(ds, Len(ds)) * Pow10T(6 - Len(ds))
DigitCodes(ds) == [i \in 1..Len(ds) |-> CH0 + ds[i]]
RECURSIVE StripZeros(_)
StripZeros(ds) == IF Len(ds) > 1 /\ ds[Len(ds)] = 0 THEN StripZeros(SubSeq(ds, 1, Len(ds) - 1)) ELSE ds

\* ---- dates ---------------------------------------------------------------------------------
\* g: [dform, xd, neg, y (absolute value), a, b]
YearText(g) == IF g.xd > 0 THEN <<IF g.neg THEN CHMinus ELSE CHPlus>> \o Digits(g.y, 4 + g.xd) ELSE Digits(g.y, 4)
CenturyText(g) == IF g.xd > 0 THEN <<IF g.neg THEN CHMinus ELSE CHPlus>> \o Digits(g.y \div 100, 2 + g.xd) ELSE Digits(g.y \div 100, 2)
DateText(g) ==
  CASE g.dform = "cal-b"  -> YearText(g) \o Digits(g.a, 2) \o Digits(g.b, 2)
    [] g.dform = "cal-e"  -> YearText(g) \o <<CHMinus>> \o Digits(g.a, 2) \o <<CHMinus>> \o Digits(g.b, 2)
    [] g.dform = "ord-b"  -> YearText(g) \o Digits(g.a, 3)
    [] g.dform = "ord-e"  -> YearText(g) \o <<CHMinus>> \o Digits(g.a, 3)
    [] g.dform = "week-b" -> YearText(g) \o <<CHW>> \o Digits(g.a, 2) \o Digits(g.b, 1)
    [] g.dform = "week-e" -> YearText(g) \o <<CHMinus, CHW>> \o Digits(g.a, 2) \o <<CHMinus>> \o Digits(g.b, 1)
    [] g.dform = "ym"     -> YearText(g) \o <<CHMinus>> \o Digits(g.a, 2)           \* reduced; same in basic and extended
    [] g.dform = "y"      -> YearText(g)
    [] g.dform = "c"      -> CenturyText(g)
    [] g.dform = "yw-b"   -> YearText(g) \o <<CHW>> \o Digits(g.a, 2)
    [] g.dform = "yw-e"   -> YearText(g) \o <<CHMinus, CHW>> \o Digits(g.a, 2)
    [] OTHER -> <<>>
DateIsComplete(f) == f \in {"cal-b", "cal-e", "ord-b", "ord-e", "week-b", "week-e"}
DateIsBasic(f)    == f \in {"cal-b", "ord-b", "week-b", "ym", "y", "c", "yw-b"}
DateIsExtended(f) == f \in {"cal-e", "ord-e", "week-e", "ym", "yw-e"}
DateRep(f) == CASE f \in {"ord-b", "ord-e"} -> "ord" [] f \in {"week-b", "week-e", "yw-b", "yw-e"} -> "week" [] OTHER -> "cal"

\* ---- times ---------------------------------------------------------------------------------
\* g: [tform ("none" | "hms-b" | "hm-b" | "h" | "hms-e" | "hm-e"), hh, mi, ss, ds (decimal digits of the last unit, <<>> = none), sep]
DecText(g) == IF Len(g.ds) = 0 THEN <<>> ELSE <<g.sep>> \o DigitCodes(g.ds)
TimeText(g) ==
  CASE g.tform = "hms-b" -> Digits(g.hh, 2) \o Digits(g.mi, 2) \o Digits(g.ss, 2) \o DecText(g)
    [] g.tform = "hm-b"  -> Digits(g.hh, 2) \o Digits(g.mi, 2) \o DecText(g)
    [] g.tform = "h"     -> Digits(g.hh, 2) \o DecText(g)
    [] g.tform = "hms-e" -> Digits(g.hh, 2) \o <<CHColon>> \o Digits(g.mi, 2) \o <<CHColon>> \o Digits(g.ss, 2) \o DecText(g)
    [] g.tform = "hm-e"  -> Digits(g.hh, 2) \o <<CHColon>> \o Digits(g.mi, 2) \o DecText(g)
    [] OTHER -> <<>>
TimeIsBasic(f)    == f \in {"hms-b", "hm-b", "h"}
TimeIsExtended(f) == f \in {"hms-e", "hm-e", "h"}
ZoneIsBasic(f)    == f \in {"Z", "hh", "hhmm"}
ZoneIsExtended(f) == f \in {"Z", "hh", "hh:mm"}

\* the whole expression: date [T time [zone]]
TPText(g) ==
  IF g.tform = "none" THEN DateText(g)
  ELSE DateText(g) \o <<CHT>> \o TimeText(g) \o (IF g.zform = "none" THEN <<>> ELSE ZoneText(g.zh, g.zm, g.zform))

\* is the combination a documented expression?  (a time needs a complete date; basic goes with basic, extended with extended)
WellFormed(g) ==
  IF g.tform = "none" THEN TRUE
  ELSE /\ DateIsComplete(g.dform)
       /\ \/ DateIsBasic(g.dform) /\ TimeIsBasic(g.tform) /\ (g.zform = "none" \/ ZoneIsBasic(g.zform))
          \/ DateIsExtended(g.dform) /\ TimeIsExtended(g.tform) /\ (g.zform = "none" \/ ZoneIsExtended(g.zform))
\* does the expression exist in basic notation (accepted by a basic-only parser)?
AllBasic(g) == DateIsBasic(g.dform) /\ (g.tform = "none" \/ (TimeIsBasic(g.tform) /\ (g.zform = "none" \/ ZoneIsBasic(g.zform))))

\* what the expression denotes: representation, date fields with defaults, precision form, exact time of day
ExpYear(g)  == IF g.dform = "c" THEN (IF g.neg THEN -1 ELSE 1) * (g.y \div 100) * 100 ELSE (IF g.neg THEN -g.y ELSE g.y)
ExpA(g) == IF g.dform \in {"y", "c"} THEN 1 ELSE g.a
ExpB(g) == CASE g.dform \in {"ym", "y", "c", "yw-b", "yw-e"} -> 1 [] DateRep(g.dform) = "ord" -> 0 [] OTHER -> g.b
ExpPrec(g) == IF g.tform = "none" \/ Len(g.ds) = 0 THEN "hms"
              ELSE CASE g.tform \in {"hms-b", "hms-e"} -> "hms" [] g.tform \in {"hm-b", "hm-e"} -> "hm" [] OTHER -> "h"
ExpH(g) == IF g.tform = "none" THEN 0 ELSE g.hh
ExpM(g) == IF g.tform \in {"none", "h"} THEN 0 ELSE g.mi
ExpS(g) == IF g.tform \in {"hms-b", "hms-e"} THEN g.ss ELSE 0



\* ---- durations -----------------------------------------------------------------------------
\* gd: [neg, wk (weeks form), w, y, mo, d, h, mi, s (non-negative integers; -1 = unit absent), ds (decimal digits of
\*      the LAST time unit present, <<>> = none), sep]
UnitText(n, ch) == IF n < 0 THEN <<>> ELSE Dec(n) \o <<ch>>
LastUnit(gd) == IF gd.s >= 0 THEN "s" ELSE IF gd.mi >= 0 THEN "mi" ELSE IF gd.h >= 0 THEN "h" ELSE "none"
UnitDecText(n, ch, gd, u) ==
  IF n < 0 THEN <<>> ELSE Dec(n) \o (IF LastUnit(gd) = u /\ Len(gd.ds) > 0 THEN <<gd.sep>> \o DigitCodes(gd.ds) ELSE <<>>) \o <<ch>>
DurText(gd) ==
  (IF gd.neg THEN <<CHMinus>> ELSE <<>>) \o <<CHP>> \o
  (IF gd.wk THEN Dec(gd.w) \o <<CHW>>
   ELSE UnitText(gd.y, CHY) \o UnitText(gd.mo, CHM) \o UnitText(gd.d, CHD) \o
        (IF gd.h < 0 /\ gd.mi < 0 /\ gd.s < 0 THEN <<>>
         ELSE <<CHT>> \o UnitDecText(gd.h, CHH, gd, "h") \o UnitDecText(gd.mi, CHM, gd, "mi") \o UnitDecText(gd.s, CHS, gd, "s")))
\* what the text denotes: years, months and the exact length <<days, seconds, micro>> (decimals to micro-units of the unit)
Z0(n) == IF n < 0 THEN 0 ELSE n
DurTextValue(gd) ==
  LET sg == IF gd.neg THEN -1 ELSE 1
      f6 == IF Len(gd.ds) = 0 THEN 0 ELSE Micro6(gd.ds)      \* micro-units of the last unit
      lu == LastUnit(gd)
      \* the fraction in microseconds: hours x 3600, minutes x 60 (f6 < 10^6, so 3600 * f6 needs two limbs)
      \* hours: f6 = a * 1000 + b micro-hours = (a * 36) * 10^5 + b * 3600 microseconds (kept below 2^31 limb by limb)
      ha == (f6 \div 1000) * 36
      hr == (ha % 10) * 100000 + (f6 % 1000) * 3600
      fsec == CASE lu = "h" -> (ha \div 10) + (hr \div MEG) [] lu = "mi" -> ((f6 * 60) \div MEG) [] OTHER -> 0
      fus  == CASE lu = "h" -> hr % MEG [] lu = "mi" -> ((f6 * 60) % MEG) [] lu = "s" -> f6 [] OTHER -> 0
      len == IF gd.wk THEN <<7 * gd.w, 0, 0>>
             ELSE Norm3(<<Z0(gd.d), Z0(gd.h) * 3600 + Z0(gd.mi) * 60 + Z0(gd.s) + fsec, fus>>)
  IN [y |-> sg * (IF gd.wk THEN 0 ELSE Z0(gd.y)), mo |-> sg * (IF gd.wk THEN 0 ELSE Z0(gd.mo)), len |-> IF gd.neg THEN Neg3(len) ELSE len]


\* ---- strftime / strptime (POSIX subset) ----------------------------------------------------
\* a format is a sequence of tokens [d |-> directive letter as a string | "lit" | "bad", c |-> code point for lit/bad]
Supported == {"Y", "m", "d", "j", "H", "M", "S", "F", "X", "z", "s"}
\* text POSIX strftime gives for the civil date-time of a whole-second point (year 0000-9999), token by token
TokText(m, p, tk) ==
  LET c == CivilDate(m, p)  o == OrdOf(m, LocalDay(m, p))
      hh == p.sod \div 3600  mi == (p.sod % 3600) \div 60  ss == p.sod % 60
      ymd == Digits(c[1], 4) \o <<CHMinus>> \o Digits(c[2], 2) \o <<CHMinus>> \o Digits(c[3], 2)
      hms == Digits(hh, 2) \o <<CHColon>> \o Digits(mi, 2) \o <<CHColon>> \o Digits(ss, 2)
  IN CASE tk.d = "lit" -> <<tk.c>>
       [] tk.d = "Y" -> Digits(c[1], 4) [] tk.d = "m" -> Digits(c[2], 2) [] tk.d = "d" -> Digits(c[3], 2)
       [] tk.d = "j" -> Digits(o[2], 3)
       [] tk.d = "H" -> Digits(hh, 2) [] tk.d = "M" -> Digits(mi, 2) [] tk.d = "S" -> Digits(ss, 2)
       [] tk.d = "F" -> ymd [] tk.d = "X" -> hms
       [] tk.d = "z" -> ZoneText(p.zh, p.zm, "hhmm")
       [] OTHER -> <<>>
RECURSIVE StrfText(_, _, _, _)
StrfText(m, p, toks, k) == IF k > Len(toks) THEN <<>> ELSE TokText(m, p, toks[k]) \o StrfText(m, p, toks, k + 1)
HasTok(toks, ds) == \E k \in 1..Len(toks) : toks[k].d \in ds


\* ---- truncated forms (ISO 8601:2000; only when the parser is told to allow them) --------------
\* gt: [tdform, tform, zform, yc (year of century), yd (year of decade), mo, dom, doy, woy, dow, hh, mi, ss, ds, sep, zh, zm]
\* (-1 = the field is not part of the form)
TruncDateText(gt) ==
  LET f == gt.tdform IN
  CASE f = "-YYMM"    -> <<CHMinus>> \o Digits(gt.yc, 2) \o Digits(gt.mo, 2)
    [] f = "-YY"      -> <<CHMinus>> \o Digits(gt.yc, 2)
    [] f = "--MMDD"   -> <<CHMinus, CHMinus>> \o Digits(gt.mo, 2) \o Digits(gt.dom, 2)
    [] f = "--MM"     -> <<CHMinus, CHMinus>> \o Digits(gt.mo, 2)
    [] f = "---DD"    -> <<CHMinus, CHMinus, CHMinus>> \o Digits(gt.dom, 2)
    [] f = "YYMMDD"   -> Digits(gt.yc, 2) \o Digits(gt.mo, 2) \o Digits(gt.dom, 2)
    [] f = "YYDDD"    -> Digits(gt.yc, 2) \o Digits(gt.doy, 3)
    [] f = "-DDD"     -> <<CHMinus>> \o Digits(gt.doy, 3)
    [] f = "YYWwwD"   -> Digits(gt.yc, 2) \o <<CHW>> \o Digits(gt.woy, 2) \o Digits(gt.dow, 1)
    [] f = "YYWww"    -> Digits(gt.yc, 2) \o <<CHW>> \o Digits(gt.woy, 2)
    [] f = "-zWwwD"   -> <<CHMinus>> \o Digits(gt.yd, 1) \o <<CHW>> \o Digits(gt.woy, 2) \o Digits(gt.dow, 1)
    [] f = "-zWww"    -> <<CHMinus>> \o Digits(gt.yd, 1) \o <<CHW>> \o Digits(gt.woy, 2)
    [] f = "-WwwD"    -> <<CHMinus, CHW>> \o Digits(gt.woy, 2) \o Digits(gt.dow, 1)
    [] f = "-Www"     -> <<CHMinus, CHW>> \o Digits(gt.woy, 2)
    [] f = "-W-D"     -> <<CHMinus, CHW, CHMinus>> \o Digits(gt.dow, 1)
    [] f = "-YY-MM"   -> <<CHMinus>> \o Digits(gt.yc, 2) \o <<CHMinus>> \o Digits(gt.mo, 2)
    [] f = "--MM-DD"  -> <<CHMinus, CHMinus>> \o Digits(gt.mo, 2) \o <<CHMinus>> \o Digits(gt.dom, 2)
    [] f = "YY-MM-DD" -> Digits(gt.yc, 2) \o <<CHMinus>> \o Digits(gt.mo, 2) \o <<CHMinus>> \o Digits(gt.dom, 2)
    [] f = "YY-DDD"   -> Digits(gt.yc, 2) \o <<CHMinus>> \o Digits(gt.doy, 3)
    [] f = "YY-Www-D" -> Digits(gt.yc, 2) \o <<CHMinus, CHW>> \o Digits(gt.woy, 2) \o <<CHMinus>> \o Digits(gt.dow, 1)
    [] f = "YY-Www"   -> Digits(gt.yc, 2) \o <<CHMinus, CHW>> \o Digits(gt.woy, 2)
    [] f = "-z-WwwD"  -> <<CHMinus>> \o Digits(gt.yd, 1) \o <<CHMinus, CHW>> \o Digits(gt.woy, 2) \o Digits(gt.dow, 1)
    [] f = "-z-Www"   -> <<CHMinus>> \o Digits(gt.yd, 1) \o <<CHMinus, CHW>> \o Digits(gt.woy, 2)
    [] f = "-Www-D"   -> <<CHMinus, CHW>> \o Digits(gt.woy, 2) \o <<CHMinus>> \o Digits(gt.dow, 1)
    [] OTHER -> <<>>                                           \* "" : no date at all (time only)
TruncTimeText(gt) ==
  CASE gt.tform = "-mmss"  -> <<CHMinus>> \o Digits(gt.mi, 2) \o Digits(gt.ss, 2) \o DecText(gt)
    [] gt.tform = "-mm:ss" -> <<CHMinus>> \o Digits(gt.mi, 2) \o <<CHColon>> \o Digits(gt.ss, 2) \o DecText(gt)
    [] gt.tform = "-mm"    -> <<CHMinus>> \o Digits(gt.mi, 2) \o DecText(gt)
    [] gt.tform = "--ss"   -> <<CHMinus, CHMinus>> \o Digits(gt.ss, 2) \o DecText(gt)
    [] OTHER -> TimeText(gt)
TruncText(gt) ==
  IF gt.tform = "none" THEN TruncDateText(gt)
  ELSE TruncDateText(gt) \o <<CHT>> \o TruncTimeText(gt) \o (IF gt.zform = "none" THEN <<>> ELSE ZoneText(gt.zh, gt.zm, gt.zform))
\* which fields the form spells
TruncFields(gt) ==
  LET f == gt.tdform  t == gt.tform
      has(x, forms) == IF f \in forms THEN x ELSE -1
  IN [yc  |-> has(gt.yc, {"-YYMM", "-YY", "YYMMDD", "YYDDD", "YYWwwD", "YYWww", "-YY-MM", "YY-MM-DD", "YY-DDD", "YY-Www-D", "YY-Www"}),
      yd  |-> has(gt.yd, {"-zWwwD", "-zWww", "-z-WwwD", "-z-Www"}),
      mo  |-> has(gt.mo, {"-YYMM", "--MMDD", "--MM", "YYMMDD", "-YY-MM", "--MM-DD", "YY-MM-DD"}),
      dom |-> has(gt.dom, {"--MMDD", "---DD", "YYMMDD", "--MM-DD", "YY-MM-DD"}),
      doy |-> has(gt.doy, {"YYDDD", "-DDD", "YY-DDD"}),
      woy |-> has(gt.woy, {"YYWwwD", "YYWww", "-zWwwD", "-zWww", "-WwwD", "-Www", "YY-Www-D", "YY-Www", "-z-WwwD", "-z-Www", "-Www-D"}),
      dow |-> has(gt.dow, {"YYWwwD", "-zWwwD", "-WwwD", "-W-D", "YY-Www-D", "-z-WwwD", "-Www-D"}),
      hh  |-> IF t \in {"hms-b", "hm-b", "h", "hms-e", "hm-e"} THEN gt.hh ELSE -1,
      mi  |-> IF t \in {"hms-b", "hm-b", "hms-e", "hm-e", "-mmss", "-mm:ss", "-mm"} THEN gt.mi ELSE -1,
      ss  |-> IF t \in {"hms-b", "hms-e", "-mmss", "-mm:ss", "--ss"} THEN gt.ss ELSE -1]
=============================================================================
