------------------------------- MODULE Text -------------------------------
(***************************************************************************)
(* Notation layer: ISO 8601 texts as sequences of code points (TLC strings *)
(* cannot be indexed).  Transcribed from README.md / ISO 8601:2004 (and    *)
(* :2000 for truncation), NOT from parser_spec.py.  See DESIGN Appendix D. *)
(***************************************************************************)
EXTENDS Val

\* code points
CH0 == 48  CHPlus == 43  CHMinus == 45  CHColon == 58  CHComma == 44  CHDot == 46
CHT == 84  CHZ == 90  CHW == 87  CHP == 80  CHR == 82  CHSlash == 47  CHSpace == 32
CHY == 89  CHM == 77  CHD == 68  CHH == 72  CHS == 83

\* n >= 0 written with exactly w digits (more if it does not fit)
RECURSIVE DigitsMin(_, _)
DigitsMin(n, w) == IF n < 10 /\ w <= 1 THEN <<CH0 + n>> ELSE Append(DigitsMin(n \div 10, w - 1), CH0 + (n % 10))
Digits(n, w) == DigitsMin(n, w)
\* plain decimal, no padding
Dec(n) == DigitsMin(n, 1)
\* signed integer text as POSIX prints it (for %s)
SignedDec(n) == IF n < 0 THEN <<CHMinus>> \o Dec(-n) ELSE Dec(n)

\* ---- zones --------------------------------------------------------------
ZoneSign(zh, zm) == IF zh < 0 \/ zm < 0 THEN CHMinus ELSE CHPlus
\* style: "Z" | "hh" | "hhmm" | "hh:mm"
ZoneText(zh, zm, style) ==
  CASE style = "Z"     -> <<CHZ>>
    [] style = "hh"    -> <<ZoneSign(zh, zm)>> \o Digits(Abs(zh), 2)
    [] style = "hhmm"  -> <<ZoneSign(zh, zm)>> \o Digits(Abs(zh), 2) \o Digits(Abs(zm), 2)
    [] OTHER           -> <<ZoneSign(zh, zm)>> \o Digits(Abs(zh), 2) \o <<CHColon>> \o Digits(Abs(zm), 2)
\* the three documented spellings of the local offset: 'Z' for zero; the reduced form only when minutes are zero
LocalZoneText(zh, zm, form) ==
  IF zh = 0 /\ zm = 0 THEN <<CHZ>>
  ELSE CASE form = "extended" -> ZoneText(zh, zm, "hh:mm")
         [] form = "reduced" /\ zm = 0 -> ZoneText(zh, zm, "hh")
         [] OTHER -> ZoneText(zh, zm, "hhmm")
=============================================================================
