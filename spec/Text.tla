------------------------------- MODULE Text -------------------------------
(***************************************************************************)
(* Notation layer: ISO 8601 texts as sequences of code points (TLC strings *)
(* cannot be indexed).  Transcribed from README.md / ISO 8601:2004 (and    *)
(* :2000 for truncation), NOT from parser_spec.py.  See DESIGN Appendix D. *)
(***************************************************************************)
EXTENDS Val

\* code points
CH0 == 48  CHPlus == 43  CHMinus == 45  CHColon == 58  CHComma == 44  CHDot == 46
CHT == 84  CHZ == 90  CHW == 87  CHP == 80  CHR == 82  CHSlash == 47  CHSpace == 32
CHY == 89  CHM == 77  CHD == 68  CHH == 72  CHS == 83

\* n >= 0 written with exactly w digits (more if it does not fit)
RECURSIVE DigitsMin(_, _)
DigitsMin(n, w) == IF n < 10 /\ w <= 1 THEN <<CH0 + n>> ELSE Append(DigitsMin(n \div 10, w - 1), CH0 + (n % 10))
Digits(n, w) == DigitsMin(n, w)
\* plain decimal, no padding
Dec(n) == DigitsMin(n, 1)
\* signed integer text as POSIX prints it (for %s)
SignedDec(n) == IF n < 0 THEN <<CHMinus>> \o Dec(-n) ELSE Dec(n)

\* ---- zones --------------------------------------------------------------
ZoneSign(zh, zm) == IF zh < 0 \/ zm < 0 THEN CHMinus ELSE CHPlus
\* style: "Z" | "hh" | "hhmm" | "hh:mm"
ZoneText(zh, zm, style) ==
  CASE style = "Z"     -> <<CHZ>>
    [] style = "hh"    -> <<ZoneSign(zh, zm)>> \o Digits(Abs(zh), 2)
    [] style = "hhmm"  -> <<ZoneSign(zh, zm)>> \o Digits(Abs(zh), 2) \o Digits(Abs(zm), 2)
    [] OTHER           -> <<ZoneSign(zh, zm)>> \o Digits(Abs(zh), 2) \o <<CHColon>> \o Digits(Abs(zm), 2)
\* the three documented spellings of the local offset: 'Z' for zero; the reduced form only when minutes are zero
LocalZoneText(zh, zm, form) ==
  IF zh = 0 /\ zm = 0 THEN <<CHZ>>
  ELSE CASE form = "extended" -> ZoneText(zh, zm, "hh:mm")
         [] form = "reduced" /\ zm = 0 -> ZoneText(zh, zm, "hh")
         [] OTHER -> ZoneText(zh, zm, "hhmm")


\* ---- generic helpers -----------------------------------------------------------------------
Pow10T(k) == CASE k = 0 -> 1 [] k = 1 -> 10 [] k = 2 -> 100 [] k = 3 -> 1000 [] k = 4 -> 10000 [] k = 5 -> 100000
               [] k = 6 -> 1000000 [] k = 7 -> 10000000 [] k = 8 -> 100000000 [] OTHER -> 1000000000
RECURSIVE DigitsVal(_, _)
\* value of the first k digits of a digit sequence ds (digits are 0..9, not code points)
DigitsVal(ds, k) == IF k = 0 THEN 0 ELSE DigitsVal(ds, k - 1) * 10 + ds[k]
\* a decimal fraction 0.ds in micro-units, truncated after 6 digits (callers allow +1 for the rounding of longer inputs)
Micro6(ds) == IF Len(ds) >= 6 THEN DigitsVal(ds, 6) ELSE DigitsVal(ds, Len(ds)) * Pow10T(6 - Len(ds))
DigitCodes(ds) == [i \in 1..Len(ds) |-> CH0 + ds[i]]
RECURSIVE StripZeros(_)
StripZeros(ds) == IF Len(ds) > 1 /\ ds[Len(ds)] = 0 THEN StripZeros(SubSeq(ds, 1, Len(ds) - 1)) ELSE ds

\* ---- dates ---------------------------------------------------------------------------------
\* g: [dform, xd, neg, y (absolute value), a, b]
YearText(g) == IF g.xd > 0 THEN <<IF g.neg THEN CHMinus ELSE CHPlus>> \o Digits(g.y, 4 + g.xd) ELSE Digits(g.y, 4)
CenturyText(g) == IF g.xd > 0 THEN <<IF g.neg THEN CHMinus ELSE CHPlus>> \o Digits(g.y \div 100, 2 + g.xd) ELSE Digits(g.y \div 100, 2)
DateText(g) ==
  CASE g.dform = "cal-b"  -> YearText(g) \o Digits(g.a, 2) \o Digits(g.b, 2)
    [] g.dform = "cal-e"  -> YearText(g) \o <<CHMinus>> \o Digits(g.a, 2) \o <<CHMinus>> \o Digits(g.b, 2)
    [] g.dform = "ord-b"  -> YearText(g) \o Digits(g.a, 3)
    [] g.dform = "ord-e"  -> YearText(g) \o <<CHMinus>> \o Digits(g.a, 3)
    [] g.dform = "week-b" -> YearText(g) \o <<CHW>> \o Digits(g.a, 2) \o Digits(g.b, 1)
    [] g.dform = "week-e" -> YearText(g) \o <<CHMinus, CHW>> \o Digits(g.a, 2) \o <<CHMinus>> \o Digits(g.b, 1)
    [] g.dform = "ym"     -> YearText(g) \o <<CHMinus>> \o Digits(g.a, 2)           \* reduced; same in basic and extended
    [] g.dform = "y"      -> YearText(g)
    [] g.dform = "c"      -> CenturyText(g)
    [] g.dform = "yw-b"   -> YearText(g) \o <<CHW>> \o Digits(g.a, 2)
    [] g.dform = "yw-e"   -> YearText(g) \o <<CHMinus, CHW>> \o Digits(g.a, 2)
    [] OTHER -> <<>>
DateIsComplete(f) == f \in {"cal-b", "cal-e", "ord-b", "ord-e", "week-b", "week-e"}
DateIsBasic(f)    == f \in {"cal-b", "ord-b", "week-b", "ym", "y", "c", "yw-b"}
DateIsExtended(f) == f \in {"cal-e", "ord-e", "week-e", "ym", "yw-e"}
DateRep(f) == CASE f \in {"ord-b", "ord-e"} -> "ord" [] f \in {"week-b", "week-e", "yw-b", "yw-e"} -> "week" [] OTHER -> "cal"

\* ---- times ---------------------------------------------------------------------------------
\* g: [tform ("none" | "hms-b" | "hm-b" | "h" | "hms-e" | "hm-e"), hh, mi, ss, ds (decimal digits of the last unit, <<>> = none), sep]
DecText(g) == IF Len(g.ds) = 0 THEN <<>> ELSE <<g.sep>> \o DigitCodes(g.ds)
TimeText(g) ==
  CASE g.tform = "hms-b" -> Digits(g.hh, 2) \o Digits(g.mi, 2) \o Digits(g.ss, 2) \o DecText(g)
    [] g.tform = "hm-b"  -> Digits(g.hh, 2) \o Digits(g.mi, 2) \o DecText(g)
    [] g.tform = "h"     -> Digits(g.hh, 2) \o DecText(g)
    [] g.tform = "hms-e" -> Digits(g.hh, 2) \o <<CHColon>> \o Digits(g.mi, 2) \o <<CHColon>> \o Digits(g.ss, 2) \o DecText(g)
    [] g.tform = "hm-e"  -> Digits(g.hh, 2) \o <<CHColon>> \o Digits(g.mi, 2) \o DecText(g)
    [] OTHER -> <<>>
TimeIsBasic(f)    == f \in {"hms-b", "hm-b", "h"}
TimeIsExtended(f) == f \in {"hms-e", "hm-e", "h"}
ZoneIsBasic(f)    == f \in {"Z", "hh", "hhmm"}
ZoneIsExtended(f) == f \in {"Z", "hh", "hh:mm"}

\* the whole expression: date [T time [zone]]
TPText(g) ==
  IF g.tform = "none" THEN DateText(g)
  ELSE DateText(g) \o <<CHT>> \o TimeText(g) \o (IF g.zform = "none" THEN <<>> ELSE ZoneText(g.zh, g.zm, g.zform))

\* is the combination a documented expression?  (a time needs a complete date; basic goes with basic, extended with extended)
WellFormed(g) ==
  IF g.tform = "none" THEN TRUE
  ELSE /\ DateIsComplete(g.dform)
       /\ \/ DateIsBasic(g.dform) /\ TimeIsBasic(g.tform) /\ (g.zform = "none" \/ ZoneIsBasic(g.zform))
          \/ DateIsExtended(g.dform) /\ TimeIsExtended(g.tform) /\ (g.zform = "none" \/ ZoneIsExtended(g.zform))
\* does the expression exist in basic notation (accepted by a basic-only parser)?
AllBasic(g) == DateIsBasic(g.dform) /\ (g.tform = "none" \/ (TimeIsBasic(g.tform) /\ (g.zform = "none" \/ ZoneIsBasic(g.zform))))

\* what the expression denotes: representation, date fields with defaults, precision form, exact time of day
ExpYear(g)  == IF g.dform = "c" THEN (IF g.neg THEN -1 ELSE 1) * (g.y \div 100) * 100 ELSE (IF g.neg THEN -g.y ELSE g.y)
ExpA(g) == IF g.dform \in {"y", "c"} THEN 1 ELSE g.a
ExpB(g) == CASE g.dform \in {"ym", "y", "c", "yw-b", "yw-e"} -> 1 [] DateRep(g.dform) = "ord" -> 0 [] OTHER -> g.b
ExpPrec(g) == IF g.tform = "none" \/ Len(g.ds) = 0 THEN "hms"
              ELSE CASE g.tform \in {"hms-b", "hms-e"} -> "hms" [] g.tform \in {"hm-b", "hm-e"} -> "hm" [] OTHER -> "h"
ExpH(g) == IF g.tform = "none" THEN 0 ELSE g.hh
ExpM(g) == IF g.tform \in {"none", "h"} THEN 0 ELSE g.mi
ExpS(g) == IF g.tform \in {"hms-b", "hms-e"} THEN g.ss ELSE 0

\* the zone text the dumper writes back for a zero offset is the same spelling with a '+' sign
=============================================================================
