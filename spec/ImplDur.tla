------------------------------ MODULE ImplDur ------------------------------
(***************************************************************************)
(* IMPLEMENTATION-SHAPED layer for C11: Duration as the library stores it  *)
(* - either a week count or the six unit fields - with __add__ (weeks stay *)
(* weeks only when both operands are in weeks, otherwise field-wise after  *)
(* to_days), __mul__, __eq__ (exact operands by total seconds; nominal by  *)
(* years, months and remaining seconds), __hash__ and the ordering key     *)
(* get_days_and_seconds (year = the mode's common-year length, month = 30  *)
(* days).  Integers only.  Abs(x) of Val.tla maps a stored duration to the *)
(* abstract <<years, months, exact length>> value on which C11 is stated.  *)
(* Knobs: EqIgnoresMonthSign, AddDropsMonthsOnMixedSigns, StdDropsDayCarry. *)
(***************************************************************************)
EXTENDS Ops
CONSTANTS EqIgnoresMonthSign, AddDropsMonthsOnMixedSigns, StdDropsDayCarry

\* stored form: [wk |-> BOOLEAN, w, y, mo, d, h, mi, s]
Wk(n) == [wk |-> TRUE, w |-> n, y |-> 0, mo |-> 0, d |-> 0, h |-> 0, mi |-> 0, s |-> 0]
Un(y, mo, d, h, mi, s) == [wk |-> FALSE, w |-> 0, y |-> y, mo |-> mo, d |-> d, h |-> h, mi |-> mi, s |-> s]
ToDays(x) == IF x.wk THEN Un(0, 0, 7 * x.w, 0, 0, 0) ELSE x
Secs(x) == IF x.wk THEN <<7 * x.w, 0, 0>> ELSE Norm3(<<x.d, x.h * 3600 + x.mi * 60 + x.s, 0>>)
\* the abstract value
Val(x) == [y |-> IF x.wk THEN 0 ELSE x.y, mo |-> IF x.wk THEN 0 ELSE x.mo, len |-> Secs(x)]

IAdd(a, b) ==
  IF a.wk /\ b.wk THEN Wk(a.w + b.w)
  ELSE LET p == ToDays(a)  q == ToDays(b) IN
       Un(p.y + q.y, IF AddDropsMonthsOnMixedSigns /\ p.mo * q.mo < 0 THEN p.mo ELSE p.mo + q.mo,
          p.d + q.d, p.h + q.h, p.mi + q.mi, p.s + q.s)
IMul(a, n) == IF a.wk THEN Wk(a.w * n) ELSE Un(a.y * n, a.mo * n, a.d * n, a.h * n, a.mi * n, a.s * n)
IsExactI(x) == x.wk \/ (x.y = 0 /\ x.mo = 0)
IEq(a, b) ==
  IF IsExactI(a) THEN (IsExactI(b) /\ Secs(a) = Secs(b))
  ELSE LET bm == IF b.wk THEN 0 ELSE b.mo  by == IF b.wk THEN 0 ELSE b.y IN
       a.y = by /\ (IF EqIgnoresMonthSign THEN Abs(a.mo) = Abs(bm) ELSE a.mo = bm) /\ Secs(a) = Secs(b)
IHash(x) == IF x.wk THEN <<0, 0, Secs(x)>> ELSE <<x.y, x.mo, Secs(x)>>
IKey(m, x) == IF x.wk THEN <<7 * x.w, 0, 0>>
              ELSE Norm3(<<x.y * DaysInYear(m, 2001) + x.mo * 30 + x.d, x.h * 3600 + x.mi * 60 + x.s, 0>>)

\* ---- beyond the listed properties: the remaining Duration operations, as the code performs them on the stored form ----
FloorDiv(x, n) == IF n > 0 THEN x \div n ELSE (-x) \div (-n)          \* Python's // on integers (n # 0)
IFloorDiv(a, n) == IF a.wk THEN Wk(FloorDiv(a.w, n))
                   ELSE Un(FloorDiv(a.y, n), FloorDiv(a.mo, n), FloorDiv(a.d, n), FloorDiv(a.h, n), FloorDiv(a.mi, n), FloorDiv(a.s, n))
IAbs(a) == IF a.wk THEN Wk(Abs(a.w)) ELSE Un(Abs(a.y), Abs(a.mo), Abs(a.d), Abs(a.h), Abs(a.mi), Abs(a.s))
\* to_weeks keeps only the whole weeks of the DAY field (the docstring warns: "use with caution")
\* (Duration(weeks=0) is NOT in weeks form: the constructor keeps the unit form unless the week count is non-zero)
IToWeeks(a) == IF a.wk THEN a ELSE IF a.d \div 7 = 0 THEN Un(0, 0, 0, 0, 0, 0) ELSE Wk(a.d \div 7)
\* Duration(..., standardize=True): seconds carried into minutes, minutes into hours, hours into days (Python divmod = floor);
\* years, months and the week form are left alone
IStd(a) == IF a.wk THEN a
           ELSE LET mi1 == a.mi + (a.s \div 60)
                    h1  == a.h + (mi1 \div 60)
                IN Un(a.y, a.mo, a.d + (IF StdDropsDayCarry THEN 0 ELSE h1 \div 24), h1 % 24, mi1 % 60, a.s % 60)
IBool(a) == IF a.wk THEN a.w # 0 ELSE ~(a.y = 0 /\ a.mo = 0 /\ a.d = 0 /\ a.h = 0 /\ a.mi = 0 /\ a.s = 0)
Same8(x, e) == x.wk = e.wk /\ (IF e.wk THEN x.w = e.w
                              ELSE x.y = e.y /\ x.mo = e.mo /\ x.d = e.d /\ x.h = e.h /\ x.mi = e.mi /\ x.s = e.s)
=============================================================================
