INIT Init
NEXT Next
INVARIANT EmitGen
CHECK_DEADLOCK FALSE
