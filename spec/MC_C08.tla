------------------------------- MODULE MC_C08 -------------------------------
(* C08 / C07 on the specification: for every complete form, reading the text the notation writes gives back exactly
   the fields written (a retraction) - incl. decimals that end in 9s, zero and negative-minute offsets, 24:00,
   expanded and negative years. *)
EXTENDS TextMatch
VARIABLES df, tf, zf, g
DForms == {"cal-b", "cal-e", "ord-b", "ord-e", "week-b", "week-e"}
TFormsB == {"hms-b", "hm-b", "h"}
TFormsE == {"hms-e", "hm-e", "h"}
Dates == {<<1999, 12, 31>>, <<0, 1, 1>>, <<9999, 2, 28>>}
Times == {<<0, 0, 0>>, <<23, 59, 59>>, <<24, 0, 0>>, <<12, 30, 1>>}
Decs  == {<<>>, <<5>>, <<9, 9, 9, 9, 9, 9>>, <<0, 0, 0, 0, 0, 1>>, <<1, 2, 3, 4, 5, 6, 7, 8, 9>>}
Zones == {<<0, 0>>, <<5, 30>>, <<-3, -30>>, <<0, -30>>, <<99, 59>>, <<-99, -59>>}
DateFor(f, d) == CASE DateRep(f) = "ord" -> <<d[1], IF d[2] = 12 THEN 365 ELSE d[3] + 31 * (d[2] - 1), 0>>
                   [] DateRep(f) = "week" -> <<d[1], IF d[2] = 12 THEN 52 ELSE d[2], IF d[3] > 7 THEN 7 ELSE d[3]>>
                   [] OTHER -> d
Init == /\ df \in DForms
        /\ tf \in (IF DateIsBasic(df) THEN TFormsB ELSE TFormsE)
        /\ zf \in (IF DateIsBasic(df) THEN {"none", "Z", "hh", "hhmm"} ELSE {"none", "Z", "hh", "hh:mm"})
        /\ g = [none |-> TRUE]
Pick == \E d \in Dates, t \in Times, ds \in Decs, z \in Zones, xd \in {0, 2}, neg \in BOOLEAN :
  /\ (neg => xd > 0) /\ (t[1] = 24 => \A i \in 1..Len(ds) : ds[i] = 0)
  /\ (zf = "Z" => z = <<0, 0>>) /\ (zf = "hh" => z[2] = 0)
  /\ LET dd == DateFor(df, d) IN
     g' = [dform |-> df, tform |-> tf, zform |-> zf, xd |-> xd, neg |-> neg, y |-> dd[1], a |-> dd[2], b |-> dd[3],
           hh |-> t[1], mi |-> t[2], ss |-> t[3], ds |-> ds, sep |-> CHComma, zh |-> z[1], zm |-> z[2]]
Next == g = [none |-> TRUE] /\ Pick /\ UNCHANGED <<df, tf, zf>>
Retraction ==
  g = [none |-> TRUE] \/
  LET r == MatchTP(TPText(g), df, tf, zf, g.xd) IN
    /\ r.neg = g.neg /\ r.y = g.y /\ r.a = g.a /\ (DateRep(df) = "ord" \/ r.b = g.b)
    /\ r.hh = g.hh /\ (tf = "h" \/ r.mi = g.mi) /\ (tf \notin {"hms-b", "hms-e"} \/ r.ss = g.ss)
    /\ r.ds = g.ds
    /\ (zf = "none" \/ (r.zh = g.zh /\ r.zm = (IF zf \in {"Z", "hh"} THEN 0 ELSE g.zm)))
=============================================================================
