SPECIFICATION Spec
CONSTANTS Spellings <- Spellings4
          Probes <- ProbesSmall
          Unkeyed <- NoFns
          CliOpts <- CliO
          CliEnvs <- CliE
          EnvOverridesOption <- Off
          MaxDepth = 4
INVARIANT ModeDetermines
INVARIANT CacheSound
INVARIANT TypeOK
INVARIANT CliSelects
VIEW View
CHECK_DEADLOCK FALSE
