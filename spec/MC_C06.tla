------------------------------- MODULE MC_C06 -------------------------------
(* C06 on the specification: re-expression in another offset as to_time_zone performs it (ImplCmp!Rezone: add the
   offset difference, relabel) satisfies the abstract ToZoneClause - same instant, requested offset, same
   representation, valid fields - for boundary points and EVERY legal destination offset -99:59 .. +99:59
   (minutes carry the hour's sign; both signs for zero-hour offsets). *)
EXTENDS ImplCmp, FiniteSets
CONSTANT ZoneStep
VARIABLES m, p, z
MkP(mm, rep, n, sod, zz) ==
  LET dt == DateOf(mm, rep, n) IN
  [rep |-> rep, y |-> dt[1], a |-> dt[2], b |-> dt[3], prec |-> "hms", hh |-> sod \div 3600, mi |-> (sod % 3600) \div 60,
   ss |-> sod % 60, sod |-> sod, us |-> 0, fu |-> 0, frac |-> FALSE, zh |-> zz[1], zm |-> zz[2], xd |-> 0]
Days(mm) == {YearStart(mm, 2000) - 1, YearStart(mm, 2000), YearStart(mm, 2000) + 59, YearStart(mm, 2004) + 365 - (IF mm = "360day" THEN 6 ELSE 0),
             WeekYearStart(mm, 2021), WeekYearStart(mm, 2021) - 1}
Points(mm) == {MkP(mm, rep, n, sod, zz) : rep \in {"cal", "ord", "week"}, n \in Days(mm), sod \in {0, 43200, 86399},
               zz \in {<<0, 0>>, <<5, 30>>, <<0, -45>>}}
\* all legal offsets, numbered 0 .. 12057:  k = 0..5999 -> -(k \div 60):-(k % 60) ; 6000.. -> +
AllZones == {<<zh, zm>> : zh \in -99..99, zm \in -59..59} 
Legal == {zz \in AllZones : ValidZone(zz[1], zz[2])}
Pick == {zz \in Legal : (zz[1] * 60 + zz[2]) % ZoneStep = 0 \/ Abs(zz[1]) \in {0, 23, 24, 99}}
NoZ == <<1000, 0>>
Init == m \in Modes /\ p \in Points(m) /\ z = NoZ
Next == z = NoZ /\ z' \in Pick /\ UNCHANGED <<m, p>>
Refines == z = NoZ \/ ToZoneClause(m, p, z[1], z[2], Rezone(m, p, z[1], z[2])) = "ok"
Coverage == Cardinality(Legal) = 11999
ASSUME Coverage
=============================================================================
