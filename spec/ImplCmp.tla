------------------------------ MODULE ImplCmp ------------------------------
(***************************************************************************)
(* IMPLEMENTATION-SHAPED layer for C02 / C04: TimePoint._cmp (re-zone the  *)
(* other operand, normalise the 24:00 form, compare (date, second-of-day)  *)
(* lexicographically), __hash__ (UTC calendar date + h, m, s) and          *)
(* TimePoint - TimePoint (ordinal-day difference through the year-range    *)
(* count, then the borrow chain seconds -> minutes -> hours -> days), as   *)
(* the library computes them - whole seconds, no loops, so these are       *)
(* functions checked as invariants over a universe of operand pairs.       *)
(* Knob: Normalise24 = FALSE is the pre-d861535 behaviour.                 *)
(***************************************************************************)
EXTENDS Ops
CONSTANTS Normalise24, BorrowSkipsZeroHour

\* x + (zone difference), exactly as to_time_zone does it: a zero difference leaves the value untouched
Rezone(m, x, zh, zm) ==
  LET delta == ZoneSec(zh, zm) - ZoneSec(x.zh, x.zm) IN
  IF delta = 0 THEN [x EXCEPT !.zh = zh, !.zm = zm]
  ELSE [AddExactTP(m, x, <<0, delta, 0>>) EXCEPT !.zh = zh, !.zm = zm]
WithoutEndOfDay(m, x) == IF Normalise24 /\ x.sod = DAY THEN AddExactTP(m, x, Zero3) ELSE x
Key(m, rep, x) ==
  LET n == LocalDay(m, x) IN
  IF rep = "cal" THEN <<CalOf(m, n)[1], CalOf(m, n)[2], CalOf(m, n)[3], x.sod>> ELSE <<OrdOf(m, n)[1], OrdOf(m, n)[2], 0, x.sod>>
LexCmp(k1, k2) ==
  IF k1[1] # k2[1] THEN (IF k1[1] < k2[1] THEN -1 ELSE 1)
  ELSE IF k1[2] # k2[2] THEN (IF k1[2] < k2[2] THEN -1 ELSE 1)
  ELSE IF k1[3] # k2[3] THEN (IF k1[3] < k2[3] THEN -1 ELSE 1)
  ELSE IF k1[4] # k2[4] THEN (IF k1[4] < k2[4] THEN -1 ELSE 1) ELSE 0
ImplCmp(m, a, b) ==
  LET s == WithoutEndOfDay(m, a)
      o == Rezone(m, WithoutEndOfDay(m, b), s.zh, s.zm)
  IN LexCmp(Key(m, s.rep, s), Key(m, s.rep, o))
ImplCmpVector(m, a, b) == LET c == ImplCmp(m, a, b) IN <<c = 0, c # 0, c < 0, c <= 0, c > 0, c >= 0>>
ImplHashKey(m, a) ==
  LET u == Rezone(m, WithoutEndOfDay(m, a), 0, 0) IN <<CalOf(m, LocalDay(m, u)), u.sod \div 3600, (u.sod % 3600) \div 60, u.sod % 60>>

\* a - b for a >= b (the library swaps and negates otherwise): [d, h, mi, s]
ImplSubPos(m, a, b) ==
  LET s == WithoutEndOfDay(m, a)
      o == Rezone(m, WithoutEndOfDay(m, b), s.zh, s.zm)
      so == OrdOf(m, LocalDay(m, s))  oo == OrdOf(m, LocalDay(m, o))
      dd0 == so[2] - oo[2] + (IF so[1] > oo[1] THEN DaysInYearRange(m, oo[1], so[1] - 1) ELSE -DaysInYearRange(m, so[1], oo[1] - 1))
      ds0 == (s.sod % 60) - (o.sod % 60)
      dm0 == ((s.sod % 3600) \div 60) - ((o.sod % 3600) \div 60)
      dh0 == (s.sod \div 3600) - (o.sod \div 3600)
      dm1 == IF ds0 < 0 THEN dm0 - 1 ELSE dm0
      ds1 == IF ds0 < 0 THEN ds0 + 60 ELSE ds0
      borrowm == dm1 < 0 /\ ~(BorrowSkipsZeroHour /\ dh0 = 0)
      dh1 == IF borrowm THEN dh0 - 1 ELSE dh0
      dm2 == IF borrowm THEN dm1 + 60 ELSE dm1
      dd1 == IF dh1 < 0 THEN dd0 - 1 ELSE dd0
      dh2 == IF dh1 < 0 THEN dh1 + 24 ELSE dh1
  IN <<dd1, dh2, dm2, ds1>>
ImplSub(m, a, b) ==
  LET pos == IF ImplCmp(m, b, a) > 0 THEN ImplSubPos(m, b, a) ELSE ImplSubPos(m, a, b)
      sg == IF ImplCmp(m, b, a) > 0 THEN -1 ELSE 1
  IN [wk |-> FALSE, w |-> 0, y |-> 0, mo |-> 0, d |-> sg * pos[1], h |-> sg * pos[2], mi |-> sg * pos[3], s |-> sg * pos[4],
      len |-> Norm3(<<sg * pos[1], sg * (pos[2] * 3600 + pos[3] * 60 + pos[4]), 0>>), frac |-> FALSE]
=============================================================================
