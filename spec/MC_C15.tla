------------------------------- MODULE MC_C15 -------------------------------
EXTENDS Lib
SpellingsAll == {"gregorian", "360day", "360_day", "365day", "365_day", "366day", "366_day"}
Spellings4 == {"gregorian", "360day", "365_day", "366day"}
P(fn, a, b) == [fn |-> fn, a |-> a, b |-> b]
\* one mode-sensitive probe per memoised helper (Feb of a leap year, day counts, 52/53-week years, ranges across 2000)
ProbesAll == {P("is_leap", 2000, 0), P("days_in_year", 2004, 0), P("days_in_month", 2004, 2), P("weeks_in_year", 2020, 0),
              P("year_range", 1999, 2001), P("week_start_cal", 2021, 0), P("week_start_ord", 2021, 0), P("since_1ad", 4, 0),
              P("months_days", 2004, 0), P("ord_of_cal", 2004, 0), P("week_of_cal", 2019, 0)}
ProbesSmall == {P("days_in_month", 2004, 2), P("weeks_in_year", 2020, 0), P("year_range", 1999, 2001), P("week_start_ord", 2021, 0)}
NoFns == {}
NoCli == {}
CliO == {"", "360day", "gregorian"}
CliE == {"", "365day", "366day"}
Off == FALSE
On == TRUE
U1 == {"days_in_year"}  U2 == {"days_in_month"}  U3 == {"weeks_in_year"}  U4 == {"year_range"}
U5 == {"week_start_cal"}  U6 == {"week_start_ord"}  U7 == {"since_1ad"}  U8 == {"months_days"}
U9 == {"ord_of_cal"}  U10 == {"week_of_cal"}
=============================================================================
