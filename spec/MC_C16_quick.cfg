SPECIFICATION Spec
CONSTANT MaxDepth = 2
INVARIANT TypeOK
PROPERTY Immutable
PROPERTY AppendOnly
CHECK_DEADLOCK FALSE
