INIT Init
NEXT Next
CONSTANTS Normalise24 = TRUE
          BorrowSkipsZeroHour = FALSE
          ZoneStep = 1
INVARIANT Refines
CHECK_DEADLOCK FALSE
