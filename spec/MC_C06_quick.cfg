INIT Init
NEXT Next
CONSTANTS Normalise24 = TRUE
          BorrowSkipsZeroHour = FALSE
          ZoneStep = 17
INVARIANT Refines
CHECK_DEADLOCK FALSE
