SPECIFICATION Spec
CONSTANTS MultipliedEndForNominal <- Off
          StrictBounds <- Off
          FirstAfterIgnoresEnd <- Off
          MaxTake = 6
          ShiftMovesStoredPoints <- Off
          WinSpecs <- SomeWins
          Shifts <- NoShifts
          Intervals <- AllIv
          Fmts <- F134
          Ns <- NsAll
INVARIANT Increasing
INVARIANT Bounded
INVARIANT WindowSound
INVARIANT WindowPrefix
CHECK_DEADLOCK FALSE
