SPECIFICATION Spec
CONSTANTS OrdinalCarryUsesNextYear <- Off
          WeekCarryUsesNextYear <- On
          BackwardOrdinalUsesThisYear <- Off
INVARIANT Refines
INVARIANT ChainNormalises
INVARIANT Variant
CHECK_DEADLOCK FALSE
