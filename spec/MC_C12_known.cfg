SPECIFICATION Spec
CONSTANTS MultipliedEndForNominal <- Off
          StrictBounds <- Off
          FirstAfterIgnoresEnd <- Off
          MaxTake = 6
          ShiftMovesStoredPoints <- Off
          WinSpecs <- NoWins
          Shifts <- NoShifts
          Intervals <- NominalIv
          Fmts <- F4
          Ns <- NsBounded
INVARIANT Increasing
INVARIANT CountAndAnchor
INVARIANT NoEarlyStop
INVARIANT FirstIsAnchor
INVARIANT Bounded
INVARIANT FirstAfterAgrees
CHECK_DEADLOCK FALSE
