------------------------------- MODULE MC_C07 -------------------------------
(* C07 on the specification: the documented notation is unambiguous - over a boundary universe of generation
   records no two well-formed expressions that render to the same text denote different values - and every
   well-formed (date form, time form, zone form) combination is emitted (GEN) for replay into the real parser. *)
EXTENDS Text, FiniteSets, Json
DForms == {"cal-b", "cal-e", "ord-b", "ord-e", "week-b", "week-e", "ym", "y", "c", "yw-b", "yw-e"}
TForms == {"none", "hms-b", "hm-b", "h", "hms-e", "hm-e"}
ZForms == {"none", "Z", "hh", "hhmm", "hh:mm"}
Dates == {<<1999, 12, 31>>, <<2000, 1, 1>>, <<1, 2, 3>>}
DateFor(f, d) == CASE DateRep(f) = "ord" -> <<d[1], IF d[2] = 12 THEN 365 ELSE d[3] + 31 * (d[2] - 1), 0>>
                   [] DateRep(f) = "week" -> <<d[1], IF d[2] = 12 THEN 52 ELSE d[2], IF d[3] > 7 THEN 7 ELSE d[3]>>
                   [] OTHER -> d
Times == {<<0, 0, 0>>, <<23, 59, 59>>, <<12, 30, 1>>}
Decs  == {<<>>, <<5>>, <<0, 2, 5>>}
Zones == {<<0, 0>>, <<5, 30>>, <<-3, -30>>, <<0, -30>>, <<12, 0>>}
XDs == {0, 2}
Mk(df, tf, zf, d, t, ds, z, xd, neg) ==
  LET dd == DateFor(df, d) IN
  [dform |-> df, tform |-> tf, zform |-> zf, xd |-> xd, neg |-> neg, y |-> dd[1], a |-> dd[2], b |-> dd[3],
   hh |-> t[1], mi |-> t[2], ss |-> t[3], ds |-> ds, sep |-> CHComma, zh |-> z[1], zm |-> z[2]]
Universe == {Mk(df, tf, zf, d, t, ds, z, xd, neg) : df \in DForms, tf \in TForms, zf \in ZForms, d \in Dates, t \in Times,
             ds \in Decs, z \in Zones, xd \in XDs, neg \in {FALSE}}
\* normalise the irrelevant fields so that records differing only in unused fields coincide
Decoded(g) == <<DateRep(g.dform), ExpYear(g), ExpA(g), ExpB(g), ExpPrec(g), ExpH(g), ExpM(g), ExpS(g),
                IF g.tform = "none" THEN <<>> ELSE g.ds,
                IF g.tform = "none" \/ g.zform = "none" THEN <<"cfg">> ELSE IF g.zform = "Z" THEN <<0, 0>>
                ELSE IF g.zform = "hh" THEN <<g.zh, 0>> ELSE <<g.zh, g.zm>>>>
WF == {g \in Universe : WellFormed(g) /\ (g.zform = "Z" => g.zh = 0 /\ g.zm = 0) /\ (g.zform = "hh" => g.zm = 0)
                        /\ (g.tform = "none" => g.zform = "none")}
VARIABLES df, tf, zf
Init == df \in DForms /\ tf \in TForms /\ zf \in ZForms
Next == UNCHANGED <<df, tf, zf>>
\* unambiguity: as many distinct texts as distinct (text, value) pairs
Unambiguous == Cardinality({TPText(g) : g \in WF}) = Cardinality({<<TPText(g), Decoded(g)>> : g \in WF})
ASSUME Unambiguous
ASSUME Cardinality(WF) > 1000
Probe == Mk(df, tf, zf, <<2000, 1, 1>>, <<12, 30, 1>>, <<>>, IF zf \in {"Z"} THEN <<0, 0>> ELSE IF zf = "hh" THEN <<5, 0>> ELSE <<5, 30>>, 0, FALSE)
Mixed == tf # "none" /\ DateIsComplete(df) /\ ~WellFormed(Probe)      \* basic with extended or vice versa
EmitGen == (WellFormed(Probe) /\ (tf = "none" => zf = "none")) \/ Mixed
             => PrintT(<<"GEN", ToJson([dform |-> df, tform |-> tf, zform |-> zf, wf |-> WellFormed(Probe)])>>)
=============================================================================
