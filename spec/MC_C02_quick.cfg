INIT Init
NEXT Next
CONSTANTS Sods <- SodsQuick
          Normalise24 <- On
          BorrowSkipsZeroHour <- Off
INVARIANT CmpRefines
INVARIANT HashConsistent
INVARIANT SubRefines
INVARIANT Antisymmetric
CHECK_DEADLOCK FALSE
