INIT Init
NEXT Next
CONSTANTS YMin <- YMinFull
          YMax = 2401
INVARIANT Inverse
INVARIANT WeekRule
INVARIANT Lengths
CHECK_DEADLOCK FALSE
