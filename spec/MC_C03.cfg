INIT Init
NEXT Next
CONSTANTS YMin = -401 YMax = 2401
INVARIANT Inverse
INVARIANT WeekRule
INVARIANT Lengths
CHECK_DEADLOCK FALSE
