----------------------------- MODULE CalLemmas -----------------------------
(* Unbounded integer lemmas about Cal.tla's Gregorian day line, discharged by Apalache for ALL years y \in Int
   (thorough tier of C03): consecutive year starts differ by the year's length, the calendar is 400-year periodic
   with period 146 097 days = 20 871 weeks (so weekdays are periodic too).  These justify treating one 400-year
   cycle as the complete quotient of the Gregorian calendar at the specification level.
   (The definitions repeat Cal.tla verbatim, with Apalache type annotations.) *)
EXTENDS Integers
VARIABLE
  \* @type: Int;
  y
\* @type: (Int) => Bool;
IsLeapG(yy) == (yy % 4 = 0) /\ ((yy % 100 # 0) \/ (yy % 400 = 0))
\* @type: (Int) => Int;
LeapsBefore(yy) == ((yy - 1) \div 4) - ((yy - 1) \div 100) + ((yy - 1) \div 400)
\* @type: (Int) => Int;
YearStartG(yy) == (yy - 2000) * 365 + LeapsBefore(yy) - LeapsBefore(2000)
Init == y \in Int
Next == UNCHANGED y
Lemmas == /\ YearStartG(y + 1) - YearStartG(y) = (IF IsLeapG(y) THEN 366 ELSE 365)
          /\ YearStartG(y + 400) - YearStartG(y) = 146097
          /\ (YearStartG(y) - 2) % 7 = (YearStartG(y + 400) - 2) % 7
          /\ YearStartG(2000) = 0
=============================================================================
