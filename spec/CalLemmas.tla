----------------------------- MODULE CalLemmas -----------------------------
(* Unbounded integer lemmas about Cal.tla's Gregorian day line, discharged by Apalache for ALL years y \in Int
   (thorough tier of C03): consecutive year starts differ by the year's length, the calendar is 400-year periodic
   with period 146 097 days = 20 871 weeks (so weekdays are periodic too); ISO week-numbering years start on a Monday
   between 29 December and 4 January, have 52 or 53 weeks (53 exactly when 1 January is a Thursday, or a Wednesday of a
   leap year) and are 400-year periodic too (WeekLemmas).  These justify treating one 400-year
   cycle as the complete quotient of the Gregorian calendar at the specification level.
   (The definitions repeat Cal.tla verbatim, with Apalache type annotations.) *)
EXTENDS Integers
VARIABLE
  \* @type: Int;
  y
\* @type: (Int) => Bool;
IsLeapG(yy) == (yy % 4 = 0) /\ ((yy % 100 # 0) \/ (yy % 400 = 0))
\* @type: (Int) => Int;
LeapsBefore(yy) == ((yy - 1) \div 4) - ((yy - 1) \div 100) + ((yy - 1) \div 400)
\* @type: (Int) => Int;
YearStartG(yy) == (yy - 2000) * 365 + LeapsBefore(yy) - LeapsBefore(2000)
Init == y \in Int
Next == UNCHANGED y
Lemmas == /\ YearStartG(y + 1) - YearStartG(y) = (IF IsLeapG(y) THEN 366 ELSE 365)
          /\ YearStartG(y + 400) - YearStartG(y) = 146097
          /\ (YearStartG(y) - 2) % 7 = (YearStartG(y + 400) - 2) % 7
          /\ YearStartG(2000) = 0
\* ISO 8601 week-numbering years on that day line (Cal.tla: Weekday, WeekYearStart), for all integer years
\* @type: (Int) => Int;
WeekdayG(n) == ((n - 2) % 7) + 1
\* @type: (Int) => Int;
WeekYearStartG(wy) == (YearStartG(wy) + 3) - (WeekdayG(YearStartG(wy) + 3) - 1)
WeekLemmas ==
  LET ws == WeekYearStartG(y)  len == WeekYearStartG(y + 1) - WeekYearStartG(y) IN
  /\ WeekdayG(ws) = 1                                            \* a week-year starts on a Monday
  /\ ws <= YearStartG(y) + 3 /\ YearStartG(y) + 3 < ws + 7        \* week 1 contains 4 January
  /\ YearStartG(y) - 3 <= ws /\ ws <= YearStartG(y) + 3           \* ... so it starts between 29 December and 4 January
  /\ (len = 364 \/ len = 371)                                    \* 52 or 53 whole weeks
  /\ (len = 371 <=> (WeekdayG(YearStartG(y)) = 4 \/ (IsLeapG(y) /\ WeekdayG(YearStartG(y)) = 3)))   \* the 53-week rule
  /\ WeekYearStartG(y + 400) - ws = 146097                       \* week-years are 400-year periodic as well
=============================================================================
