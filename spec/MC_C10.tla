------------------------------- MODULE MC_C10 -------------------------------
(* C10 on the specification: scanning the designator text that Text.tla writes gives back the generation record,
   hence the same value - each unit absent / zero / present, decimals on the last time unit, weeks, leading '-'. *)
EXTENDS TextMatch
VARIABLES gd, st
Vals == {-1, 0, 1, 59}
Decs == {<<>>, <<5>>, <<2, 5>>, <<9, 9, 9, 9, 9, 9>>, <<0, 0, 1>>}
Init == st = 0 /\ gd = [none |-> TRUE]
Pick ==
  \/ \E w \in {0, 1, 52, 1000}, neg \in BOOLEAN :
       gd' = [neg |-> neg, wk |-> TRUE, w |-> w, y |-> -1, mo |-> -1, d |-> -1, h |-> -1, mi |-> -1, s |-> -1, ds |-> <<>>, sep |-> CHComma]
  \/ \E y \in Vals, mo \in Vals, d \in Vals, h \in Vals, mi \in Vals, s \in Vals, ds \in Decs, neg \in BOOLEAN :
       /\ (ds # <<>> => (h >= 0 \/ mi >= 0 \/ s >= 0))
       /\ ~(y < 0 /\ mo < 0 /\ d < 0 /\ h < 0 /\ mi < 0 /\ s < 0)
       /\ gd' = [neg |-> neg, wk |-> FALSE, w |-> 0, y |-> y, mo |-> mo, d |-> d, h |-> h, mi |-> mi, s |-> s, ds |-> ds, sep |-> CHComma]
Next == st = 0 /\ st' = 1 /\ Pick
Retraction == st = 0 \/ LET r == MatchDur(DurText(gd)) IN r = gd
SameValue  == st = 0 \/ DurTextValue(MatchDur(DurText(gd))) = DurTextValue(gd)
\* sign: a negated text denotes the negated value
Negation   == st = 0 \/ LET v == DurTextValue(gd)  w == DurTextValue([gd EXCEPT !.neg = ~gd.neg]) IN
                          w.y = -v.y /\ w.mo = -v.mo /\ w.len = Neg3(v.len)
=============================================================================
