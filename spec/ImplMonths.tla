----------------------------- MODULE ImplMonths -----------------------------
(***************************************************************************)
(* IMPLEMENTATION-SHAPED layer for C05: TimePoint.add_months (convert to   *)
(* the calendar form, step one month at a time clamping the day to the     *)
(* month reached, convert back) followed by the year addition of __add__   *)
(* with its per-representation clamp.  One action per month step.          *)
(* Knobs: ClampUsesLeapTable, NoWeek53Clamp, Day366To364 (seeded faults).  *)
(***************************************************************************)
EXTENDS Ops
CONSTANTS ClampUsesLeapTable, NoWeek53Clamp, Day366To364
VARIABLES m, p0, nmo, nyr,   \* mode, start point, months and years to add
          c,                 \* working civil date <<y, mo, d>> while stepping months
          left,              \* months still to step (signed)
          q,                 \* the point after the month phase, in p0's representation
          phase              \* "months" | "years" | "done"
vars == <<m, p0, nmo, nyr, c, left, q, phase>>

MaxDay(y, mo) == IF ClampUsesLeapTable THEN M366[mo] ELSE DaysInMonth(m, y, mo)
MonthStepAct ==
  /\ phase = "months" /\ left # 0
  /\ LET sg == Sign(left)
         mo0 == c[2] + sg
         y1 == IF mo0 > 12 THEN c[1] + 1 ELSE IF mo0 < 1 THEN c[1] - 1 ELSE c[1]
         mo1 == IF mo0 > 12 THEN 1 ELSE IF mo0 < 1 THEN 12 ELSE mo0
     IN c' = <<y1, mo1, Min2(c[3], IF m = "360day" THEN 30 ELSE MaxDay(y1, mo1))>>
  /\ left' = left - Sign(left)
  /\ UNCHANGED <<m, p0, nmo, nyr, q, phase>>
MonthsDone ==
  /\ phase = "months" /\ left = 0
  /\ q' = (IF nmo = 0 THEN p0
           ELSE LET dt == DateOf(m, p0.rep, DayNumCal(m, c[1], c[2], c[3])) IN [p0 EXCEPT !.y = dt[1], !.a = dt[2], !.b = dt[3]])
  /\ phase' = "years"
  /\ UNCHANGED <<m, p0, nmo, nyr, c, left>>
YearsAct ==
  /\ phase = "years"
  /\ q' = (IF nyr = 0 THEN q
           ELSE LET y1 == q.y + nyr IN
             CASE q.rep = "cal"  -> [q EXCEPT !.y = y1, !.b = Min2(q.b, DaysInMonth(m, y1, q.a))]
               [] q.rep = "ord"  -> [q EXCEPT !.y = y1, !.a = IF q.a > DaysInYear(m, y1)
                                                              THEN (IF Day366To364 THEN DaysInYear(m, y1) - 1 ELSE DaysInYear(m, y1)) ELSE q.a]
               [] OTHER          -> [q EXCEPT !.y = y1, !.a = IF NoWeek53Clamp THEN q.a ELSE Min2(q.a, WeeksInYear(m, y1))])
  /\ phase' = "done"
  /\ UNCHANGED <<m, p0, nmo, nyr, c, left>>
Next == MonthStepAct \/ MonthsDone \/ YearsAct

Dur0 == [y |-> nyr, mo |-> nmo, len |-> Zero3]
\* C05: the result is the abstract one, and is a valid date of the mode; time of day, offset, representation kept
Refines == phase = "done" => /\ SameTP(q, AddDurTP(m, p0, Dur0))
                             /\ ValidDate(m, q) /\ q.rep = p0.rep /\ q.sod = p0.sod /\ SameZone(q, p0)
\* n months is n single steps (stated on the abstract function, for the same universe)
NStepsIsNMonths == phase = "done" /\ nyr = 0 /\ nmo > 1 =>
                     SameTP(AddMonthsTP(m, p0, nmo), AddMonthsTP(m, AddMonthsTP(m, p0, nmo - 1), 1))
\* every intermediate civil date is a real day of the mode
StepValid == ValidCal(m, c[1], c[2], c[3])
=============================================================================
