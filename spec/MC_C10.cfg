INIT Init
NEXT Next
INVARIANT Retraction
INVARIANT SameValue
INVARIANT Negation
CHECK_DEADLOCK FALSE
