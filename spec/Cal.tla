------------------------------- MODULE Cal -------------------------------
(***************************************************************************)
(* Definitional proleptic calendars of metomi/isodatetime.                 *)
(*                                                                         *)
(* Four calendar meanings ("gregorian", "360day", "365day", "366day"),     *)
(* seven spellings.  Every day of every calendar is identified with an     *)
(* integer day number: 2000-01-01 is day 0 in every mode, and day 2        *)
(* (2000-01-03) is a Monday in every mode (the library's documented        *)
(* weekday anchor).  Everything here is closed-form / bounded recursion so *)
(* that TLC can evaluate it on any year whose day number fits in 32 bits.  *)
(* Nothing here is transcribed from the implementation: it is ISO 8601     *)
(* (week 1 contains 4 January, Monday = 1) plus the CF month tables.       *)
(***************************************************************************)
EXTENDS Integers, Sequences

Modes == {"gregorian", "360day", "365day", "366day"}

\* the 7 spellings accepted by Calendar.set_mode (case-insensitive) + empty = default
Meaning(sp) ==
  CASE sp \in {"360day", "360_day", "360DAY", "360_DAY"} -> "360day"
    [] sp \in {"365day", "365_day", "365DAY", "365_DAY"} -> "365day"
    [] sp \in {"366day", "366_day", "366DAY", "366_DAY"} -> "366day"
    [] OTHER -> "gregorian"      \* "gregorian", "GREGORIAN", and the empty spelling (None) = default

IsLeap(m, y) == m = "gregorian" /\ y % 4 = 0 /\ (y % 100 # 0 \/ y % 400 = 0)

M360 == <<30,30,30,30,30,30,30,30,30,30,30,30>>
M365 == <<31,28,31,30,31,30,31,31,30,31,30,31>>
M366 == <<31,29,31,30,31,30,31,31,30,31,30,31>>

MonthLens(m, y) ==
  IF m = "360day" THEN M360
  ELSE IF m = "366day" \/ IsLeap(m, y) THEN M366
  ELSE M365

\* cumulative days before month k (k in 1..13)
Cum360 == <<0,30,60,90,120,150,180,210,240,270,300,330,360>>
Cum365 == <<0,31,59,90,120,151,181,212,243,273,304,334,365>>
Cum366 == <<0,31,60,91,121,152,182,213,244,274,305,335,366>>
CumDays(m, y) ==
  IF m = "360day" THEN Cum360
  ELSE IF m = "366day" \/ IsLeap(m, y) THEN Cum366
  ELSE Cum365

DaysInYear(m, y) == CumDays(m, y)[13]
DaysInMonth(m, y, mo) == MonthLens(m, y)[mo]

\* number of Gregorian leap years in 1 .. y-1 (floor division: TLC's \div floors)
LeapsBefore(y) == ((y-1) \div 4) - ((y-1) \div 100) + ((y-1) \div 400)

\* day number of y-01-01 (2000-01-01 = 0)
YearStart(m, y) ==
  IF m = "gregorian" THEN (y - 2000) * 365 + LeapsBefore(y) - LeapsBefore(2000)
  ELSE (y - 2000) * DaysInYear(m, y)

ValidCal(m, y, mo, d) == mo \in 1..12 /\ d >= 1 /\ d <= DaysInMonth(m, y, mo)
ValidOrd(m, y, doy)   == doy >= 1 /\ doy <= DaysInYear(m, y)

DayNumCal(m, y, mo, d) == YearStart(m, y) + CumDays(m, y)[mo] + d - 1
DayNumOrd(m, y, doy)   == YearStart(m, y) + doy - 1

\* Monday = 1 ... Sunday = 7; day 2 (2000-01-03) is a Monday
Weekday(n) == ((n - 2) % 7) + 1

\* first day (a Monday) of ISO week-year wy: the Monday of the week containing 4 January
WeekYearStart(m, wy) == LET j4 == DayNumCal(m, wy, 1, 4) IN j4 - (Weekday(j4) - 1)
WeeksInYear(m, wy)   == (WeekYearStart(m, wy + 1) - WeekYearStart(m, wy)) \div 7
ValidWeek(m, wy, w, d) == w >= 1 /\ w <= WeeksInYear(m, wy) /\ d \in 1..7
DayNumWeek(m, wy, w, d) == WeekYearStart(m, wy) + (w - 1) * 7 + d - 1

\* the year containing day n (closed form for the fixed-length calendars; estimate + adjustment otherwise)
RECURSIVE AdjYear(_, _, _)
AdjYear(m, n, y) == IF YearStart(m, y) > n THEN AdjYear(m, n, y - 1)
                    ELSE IF YearStart(m, y + 1) <= n THEN AdjYear(m, n, y + 1) ELSE y
YearOf(m, n) ==
  CASE m = "360day" -> 2000 + (n \div 360)
    [] m = "365day" -> 2000 + (n \div 365)
    [] m = "366day" -> 2000 + (n \div 366)
    [] OTHER -> AdjYear(m, n, 2000 + (n \div 146097) * 400 + (((n % 146097) * 400) \div 146097))

RECURSIVE MonthOfRem(_, _, _)
MonthOfRem(cum, r, mo) == IF r < cum[mo + 1] THEN mo ELSE MonthOfRem(cum, r, mo + 1)

\* inverse conversions: day number -> <<y, mo, d>>, <<y, doy>>, <<wy, w, wd>>
CalOf(m, n) ==
  LET y == YearOf(m, n)  r == n - YearStart(m, y)
      mo == MonthOfRem(CumDays(m, y), r, 1)
  IN <<y, mo, r - CumDays(m, y)[mo] + 1>>
OrdOf(m, n) == LET y == YearOf(m, n) IN <<y, n - YearStart(m, y) + 1>>
WeekOf(m, n) ==
  LET y  == YearOf(m, n)
      wy == IF WeekYearStart(m, y + 1) <= n THEN y + 1
            ELSE IF WeekYearStart(m, y) <= n THEN y ELSE y - 1
      s  == WeekYearStart(m, wy)
  IN <<wy, ((n - s) \div 7) + 1, ((n - s) % 7) + 1>>

\* days in years a..b inclusive (0 when a > b) -- the library's get_days_in_year_range
DaysInYearRange(m, a, b) == IF a > b THEN 0 ELSE YearStart(m, b + 1) - YearStart(m, a)
\* the library's get_days_since_1_ad: days from 1 Jan 1 AD to the end of year y (0 for y < 1)
DaysSince1AD(m, y) == IF y < 1 THEN 0 ELSE YearStart(m, y + 1) - YearStart(m, 1)

\* ---- the calendar queries of the library, as a table: what a fresh process that only ever used mode m
\* computes for query p = [fn, a, b]  (used by Lib.tla / C15 and by the trace specification)
Fresh(m, p) ==
  CASE p.fn = "is_leap"        -> <<IF IsLeap("gregorian", p.a) THEN 1 ELSE 0>>   \* mode-independent by design
    [] p.fn = "days_in_year"   -> <<DaysInYear(m, p.a)>>
    [] p.fn = "days_in_month"  -> <<DaysInMonth(m, p.a, p.b)>>
    [] p.fn = "weeks_in_year"  -> <<WeeksInYear(m, p.a)>>
    [] p.fn = "year_range"     -> <<DaysInYearRange(m, p.a, p.b)>>
    [] p.fn = "week_start_cal" -> CalOf(m, WeekYearStart(m, p.a))
    [] p.fn = "week_start_ord" -> OrdOf(m, WeekYearStart(m, p.a))
    [] p.fn = "since_1ad"      -> <<DaysSince1AD(m, p.a)>>
    [] p.fn = "months_days"    -> <<DaysInYear(m, p.a), DaysInMonth(m, p.a, 2)>>   \* length of iter_months_days, Feb length
    [] p.fn = "ord_of_cal"     -> OrdOf(m, DayNumCal(m, p.a, 3, 1))               \* 1 March as an ordinal date
    [] p.fn = "week_of_cal"    -> WeekOf(m, DayNumCal(m, p.a, 3, 1))
    [] OTHER -> <<>>

=============================================================================
