SPECIFICATION Spec
CONSTANTS HourDoesNotZeroMinutes <- Off
          Week53Everywhere <- Off
          AllowKnownClass <- On
          Shapes = 0
INVARIANT Refines
INVARIANT Variant
CHECK_DEADLOCK FALSE
