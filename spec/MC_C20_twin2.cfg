SPECIFICATION Spec
CONSTANTS HourDoesNotZeroMinutes <- Off
          DayMoveKeepsHour <- Off
          Week53Everywhere <- On
          AllowKnownClass <- Off
          Shapes = 0
INVARIANT Refines
INVARIANT Variant
CHECK_DEADLOCK FALSE
