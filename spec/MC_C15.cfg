SPECIFICATION Spec
CONSTANTS Spellings <- Spellings4
          Probes <- ProbesAll
          Unkeyed <- NoFns
          CliOpts <- NoCli
          CliEnvs <- NoCli
          EnvOverridesOption <- Off
          MaxDepth = 5
INVARIANT ModeDetermines
INVARIANT CacheSound
INVARIANT TypeOK
VIEW View
CHECK_DEADLOCK FALSE
