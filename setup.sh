#!/bin/sh
# Offline setup: nothing is built or fetched; parse every specification module and check the tools exist.
set -e
cd /verif/spec
for f in *.tla; do
  java -cp /opt/veriftools/tla/tla2tools.jar:/opt/veriftools/tla/CommunityModules-deps.jar tla2sany.SANY "$f" > /tmp/isodt_sany.out 2>&1 || { cat /tmp/isodt_sany.out; echo "SANY failed on $f"; exit 1; }
  if grep -q -E "^\*\*\* Errors|Fatal errors|Parsing or semantic analysis failed" /tmp/isodt_sany.out; then cat /tmp/isodt_sany.out; echo "SANY errors in $f"; exit 1; fi
done
rm -f /tmp/isodt_sany.out
/venv/bin/python -c "import sys; sys.path.insert(0,'/verif'); from harness import common; print('library:', common.D.__file__)"
echo "setup ok"
