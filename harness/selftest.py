"""Self-test of the binding: apply source mutants (selftest/mutants.json: old/new string pairs, each validated to pass
the repository's own 85 tests) to a scratch worktree of /repo HEAD and require the property's check to print VIOLATION.
usage: selftest.py [--tier quick] [--only ID,ID] [--jobs N] [--with-tests]"""
import json
import os
import subprocess
import sys
import tempfile
from concurrent.futures import ThreadPoolExecutor

ROOT = os.path.dirname(os.path.dirname(os.path.abspath(__file__)))
PYTEST = ["/venv/bin/python", "-m", "pytest", "-q", "-p", "no:cacheprovider", "--timeout=900", "-x",
          "--deselect", "metomi/isodatetime/tests/test_main.py::test_pipe"]


def sh(cmd, cwd=None, env=None):
    e = dict(os.environ)
    e.update(env or {})
    p = subprocess.run(cmd, cwd=cwd, env=e, capture_output=True, text=True)
    return p.returncode, p.stdout + p.stderr


def one(mut, tier, with_tests):
    wt = tempfile.mkdtemp(prefix="isodt_mut_")
    os.rmdir(wt)
    res = {"id": mut["id"], "property": mut["property"]}
    try:
        rc, out = sh(["git", "-C", "/repo", "worktree", "add", "-q", "--detach", wt, "HEAD"])
        if rc != 0:
            res["error"] = out[-200:]
            return res
        p = os.path.join(wt, "metomi/isodatetime", mut["file"])
        s = open(p).read()
        if s.count(mut["old"]) != 1:
            res["applies"] = False
            return res
        res["applies"] = True
        open(p, "w").write(s.replace(mut["old"], mut["new"]))
        if with_tests:
            rc, out = sh(PYTEST, cwd=wt)
            res["tests_pass"] = rc == 0
        rc, out = sh([os.path.join(ROOT, "check"), mut["property"], "--tier", tier], cwd=ROOT,
                     env={"VERIF_REPO": wt, "VERIF_NO_EVIDENCE": "1", "VERIF_REPLAY_DIR": os.path.join(wt, ".verif_replays")})
        res["exit"] = rc
        res["expect"] = mut.get("expect", "violation")      # "silent": the property still holds under this mutant (no alarm allowed)
        res["as_expected"] = (rc == 1) if res["expect"] == "violation" else (rc == 0)
        res["spec_deviation_lines"] = sum(1 for ln in out.splitlines() if ln.startswith("SPEC-DEVIATION"))
        res["violations"] = sum(1 for ln in out.splitlines() if ln.startswith("VIOLATION"))
        res["first"] = next((ln.strip()[:200] for ln in out.splitlines() if ln.startswith("  ")), "")
        if rc == 2:
            res["machinery"] = out[-400:]
        return res
    finally:
        sh(["git", "-C", "/repo", "worktree", "remove", "--force", wt])


def main():
    tier, only, jobs, with_tests = "quick", None, 4, "--with-tests" in sys.argv
    for i, a in enumerate(sys.argv):
        if a == "--tier":
            tier = sys.argv[i + 1]
        if a == "--only":
            only = set(sys.argv[i + 1].split(","))
        if a == "--jobs":
            jobs = int(sys.argv[i + 1])
    muts = json.load(open(os.path.join(ROOT, "selftest", "mutants.json")))
    if only:
        muts = [m for m in muts if m["id"] in only or m["property"] in only]
    with ThreadPoolExecutor(max_workers=jobs) as ex:
        for r in ex.map(lambda m: one(m, tier, with_tests), muts):
            print(json.dumps(r), flush=True)


if __name__ == "__main__":
    main()
