"""Harness-side renderer of ISO 8601 texts from generation records.  Not trusted: every text it produces is
re-derived by Text.tla in TLC ("harness-render-mismatch" clause) before the library's answer is judged."""


def year_text(g):
    if g["xd"] > 0:
        return ("-" if g["neg"] else "+") + "%0*d" % (4 + g["xd"], g["y"])
    return "%04d" % g["y"]


def date_text(g):
    f = g["dform"]
    y = year_text(g)
    if f == "cal-b":
        return y + "%02d%02d" % (g["a"], g["b"])
    if f == "cal-e":
        return y + "-%02d-%02d" % (g["a"], g["b"])
    if f == "ord-b":
        return y + "%03d" % g["a"]
    if f == "ord-e":
        return y + "-%03d" % g["a"]
    if f == "week-b":
        return y + "W%02d%d" % (g["a"], g["b"])
    if f == "week-e":
        return y + "-W%02d-%d" % (g["a"], g["b"])
    if f == "ym":
        return y + "-%02d" % g["a"]
    if f == "y":
        return y
    if f == "c":
        if g["xd"] > 0:
            return ("-" if g["neg"] else "+") + "%0*d" % (2 + g["xd"], g["y"] // 100)
        return "%02d" % (g["y"] // 100)
    if f == "yw-b":
        return y + "W%02d" % g["a"]
    if f == "yw-e":
        return y + "-W%02d" % g["a"]
    raise ValueError(f)


def dec_text(g):
    if not g["ds"]:
        return ""
    return chr(g["sep"]) + "".join(str(d) for d in g["ds"])


def time_text(g):
    f = g["tform"]
    if f == "hms-b":
        return "%02d%02d%02d" % (g["hh"], g["mi"], g["ss"]) + dec_text(g)
    if f == "hm-b":
        return "%02d%02d" % (g["hh"], g["mi"]) + dec_text(g)
    if f == "h":
        return "%02d" % g["hh"] + dec_text(g)
    if f == "hms-e":
        return "%02d:%02d:%02d" % (g["hh"], g["mi"], g["ss"]) + dec_text(g)
    if f == "hm-e":
        return "%02d:%02d" % (g["hh"], g["mi"]) + dec_text(g)
    raise ValueError(f)


def zone_text(zh, zm, style):
    if style == "Z":
        return "Z"
    sign = "-" if (zh < 0 or zm < 0) else "+"
    if style == "hh":
        return "%s%02d" % (sign, abs(zh))
    if style == "hhmm":
        return "%s%02d%02d" % (sign, abs(zh), abs(zm))
    return "%s%02d:%02d" % (sign, abs(zh), abs(zm))


def tp_text(g):
    if g["tform"] == "none":
        return date_text(g)
    return date_text(g) + "T" + time_text(g) + ("" if g["zform"] == "none" else zone_text(g["zh"], g["zm"], g["zform"]))


def codes(s):
    return [ord(c) for c in s]


def tp_record_text(r):
    """extended complete text of a spec-level time point record (whole seconds or decimal seconds; offset always written)."""
    y = r["y"]
    if r.get("xd"):
        ys = ("-" if y < 0 else "+") + "%0*d" % (4 + r["xd"], abs(y))
    else:
        ys = "%04d" % y
    if r["rep"] == "cal":
        d = "%s-%02d-%02d" % (ys, r["a"], r["b"])
    elif r["rep"] == "ord":
        d = "%s-%03d" % (ys, r["a"])
    else:
        d = "%s-W%02d-%d" % (ys, r["a"], r["b"])
    t = "%02d:%02d:%02d" % (r["hh"], max(r["mi"], 0), max(r["ss"], 0))
    if r.get("dec"):
        t += "," + r["dec"]
    return d + "T" + t + zone_text(r["zh"], r["zm"], "hh:mm")


def dur_desc_text(d):
    neg = any(v < 0 for v in d.values())
    a = {k: abs(v) for k, v in d.items()}
    if "w" in a:
        s = "P%dW" % a["w"]
    else:
        s = "P" + "".join("%d%s" % (a[k], u) for k, u in (("y", "Y"), ("mo", "M"), ("d", "D")) if a.get(k))
        t = "".join("%d%s" % (a[k], u) for k, u in (("h", "H"), ("mi", "M"), ("s", "S")) if a.get(k))
        s += ("T" + t) if t else ""
        if s == "P":
            s = "P0Y"
    return ("-" if neg else "") + s
