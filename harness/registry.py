"""Per-property registry: which drivers execute the library, which MC instances check the spec."""
TRUST = ["TLC 1.8 / SANY / CommunityModules Json+IOUtils evaluate the specification faithfully",
         "harness/common.py proj_* (reads public accessors and slots; exact float->integer conversion with fractions)",
         "Cal.tla / Ops.tla / Text.tla are a faithful transcription of ISO 8601 and the library's documented behaviour"]

NOT_APPLICABLE = {}

PROPS = {
    "C01": {
        "technique": "TLA+ implementation-shaped carry chain (Impl.tla) model-checked against the abstract postcondition (Ops.tla) with sensitivity twins; its (point, duration) universe replayed into the library; TLC trace validation of recorded p+d executions",
        "level_text": "Impl.tla models __add__/_tick_over one carry per action; TLC checks over ~110 000 (mode, point, duration) triples that the "
                      "chain terminates and refines the abstract postcondition, and rejects three seeded design faults (twins). The same triples are "
                      "emitted by TLC and executed on the real library. Every recorded addition of the real library is judged by TLC against the abstract postcondition of Ops.tla "
                      "(instant shifted exactly, same representation and offset, all fields valid) under the mode the trace spec tracks; "
                      "systematic day-by-day sweeps over every year type and mode plus seeded random points/durations.",
        "drivers": ["c01", "suite_add"],
        "mc": [{"module": "MC_C01.tla", "cfg": "MC_C01.cfg", "coverage": True},
               {"module": "MC_C01.tla", "cfg": "MC_C01_twin1.cfg", "expect_violation": True},
               {"module": "MC_C01.tla", "cfg": "MC_C01_twin2.cfg", "expect_violation": True, "tier": "thorough"},
               {"module": "MC_C01.tla", "cfg": "MC_C01_twin3.cfg", "expect_violation": True, "tier": "thorough"}],
        "expect_ops": ["Add"],
        "rule": "one case = one addition p + d / d + p / p - (-d) under one mode spelling; non-trivial = the result's "
                "date fields differ from the operand's (a day, month, year, leap-day or week-year boundary was crossed)",
        "exhaustive_part": {"quick": "every day of 8 (mode, year-type) combinations as a start x 8 unit steps",
                            "thorough": "every day of 34 (mode, year-type) combinations x 3 representations x 8 unit steps"},
        "assumptions": TRUST,
    },
    "C02": {
        "technique": "TLA+ implementation-shaped _cmp/__hash__ (ImplCmp.tla) model-checked against the order of instants (MC_C02, twins; the timeline's triple arithmetic proved exact for all integers with Apalache, TimelineLemmas.tla, thorough tier) + TLC trace validation of comparison, hash, sort and set executions incl. the repository's own tests",
        "level_text": "All six operators on every ordered pair of each pool, hash ids, sorted order, set size and transitivity of the real "
                      "library are judged by TLC against the order of the instants on the integer timeline; pools are built so that many "
                      "members are the same instant spelled differently (representation, offset, precision, 24:00) or 1 s apart across boundaries.",
        "drivers": ["c02", "suite_cmp1"],
        "mc": [{"module": "MC_C02.tla", "cfg": "MC_C02.cfg", "cfg_quick": "MC_C02_quick.cfg"},
               {"module": "MC_C02.tla", "cfg": "MC_C02_twin1.cfg", "expect_violation": True},
               {"module": "MC_C02.tla", "cfg": "MC_C02_twin2.cfg", "expect_violation": True, "tier": "thorough"}], "expect_ops": ["Cmp", "Pool", "Cmp1"],
        # unbounded (all integers): the <<day, second, microsecond>> triples are exact integer arithmetic on microseconds
        "apalache": [{"module": "TimelineLemmas.tla", "inv": "Lemmas"}],
        "rule": "one case = one pool of 6-7 time points under one mode (36-49 ordered pairs + sort/set/hash); every pool is non-trivial "
                "(it contains respelled and 1-second-shifted members by construction)",
        "assumptions": TRUST,
    },
    "C04": {
        "technique": "TLA+ implementation-shaped TimePoint-TimePoint borrow chain (ImplCmp.tla) model-checked against the signed distance (MC_C02 SubRefines, twin) + TLC trace validation of a-b and the three identities incl. the repository's own tests",
        "level_text": "Every recorded difference is judged by TLC: exact, single-signed, fields in range, length = distance of the instants; "
                      "(a-b)==-(b-a), b+(a-b)==a and (p+d)-p==d are recorded as library results and re-derived on the timeline.",
        "drivers": ["c04", "suite_subtp"],
        "mc": [{"module": "MC_C02.tla", "cfg": "MC_C02.cfg", "cfg_quick": "MC_C02_quick.cfg"},
               {"module": "MC_C02.tla", "cfg": "MC_C02_twin2.cfg", "expect_violation": True}], "expect_ops": ["SubTP", "Ident", "RoundTrip", "SuiteEnd"],
        "rule": "one case = one ordered pair (a, b) (or one (p, d) round trip); non-trivial = different years, representations or offsets",
        "assumptions": TRUST,
    },
    "C05": {
        "technique": "TLA+ implementation-shaped add_months/year clamp (ImplMonths.tla) model-checked against Ops.tla (MC_C05, 3 twins); its universe replayed into the library; TLC trace validation of nominal additions",
        "level_text": "The specification defines n months as n clamped single steps, year clamping per representation and the order "
                      "exact->months->years; TLC requires every recorded result of the library to carry exactly the date fields, time of day, "
                      "offset and representation the definition gives, from every month end / leap day / day 366 / week 53 of each year type.",
        "drivers": ["c05"],
        "mc": [{"module": "MC_C05.tla", "cfg": "MC_C05.cfg", "coverage": True},
               {"module": "MC_C05.tla", "cfg": "MC_C05_twin1.cfg", "expect_violation": True},
               {"module": "MC_C05.tla", "cfg": "MC_C05_twin2.cfg", "expect_violation": True, "tier": "thorough"},
               {"module": "MC_C05.tla", "cfg": "MC_C05_twin3.cfg", "expect_violation": True, "tier": "thorough"}], "expect_ops": ["Add"],
        "rule": "one case = one nominal (or mixed) addition; all cases start from month ends, leap days, last days of a year, week 53 or are random",
        "assumptions": TRUST,
    },
    "C06": {
        "technique": "TLA+ to_time_zone model (ImplCmp!Rezone) model-checked for every legal offset (MC_C06) + TLC trace validation of to_time_zone / to_utc / to_local_time_zone / zone-bearing dump executions",
        "level_text": "For every legal destination offset (-99:59..+99:59, both signs of zero-hour offsets) TLC checks that the re-expressed "
                      "value denotes the same instant, carries exactly the requested offset, keeps the representation and has valid fields, and "
                      "that ==, hash and difference recorded from the library agree.",
        "drivers": ["c06"],
        "mc": [{"module": "MC_C06.tla", "cfg": "MC_C06.cfg", "cfg_quick": "MC_C06_quick.cfg"}], "expect_ops": ["Zone"],
        "rule": "one case = one re-expression; non-trivial = destination offset differs from the source offset",
        "exhaustive_part": {"quick": "all 11 999 destination offsets once", "thorough": "all destination offsets x 4 rounds of boundary points"},
        "assumptions": TRUST,
    },
    "C11": {
        "technique": "TLA+ stored-form Duration model (ImplDur.tla) model-checked against the abstract laws (MC_C11, 3 twins) + TLC trace validation of recorded duration operations and laws incl. the repository's own tests",
        "level_text": "For each triple of durations and multiplier TLC re-derives every recorded result (sum in both orders, both associations, "
                      "identity, inverse, n*d, n-fold sum, a-b, a+(-1*b)) as <<years, months, exact length>> and requires the library's ==, hash "
                      "and the four order operators to agree with the specification's equality and rough-length order under the active mode.",
        "drivers": ["c11", "suite_durop1"],
        "mc": [{"module": "MC_C11.tla", "cfg": "MC_C11.cfg"},
               {"module": "MC_C11.tla", "cfg": "MC_C11_twin1.cfg", "expect_violation": True},
               {"module": "MC_C11.tla", "cfg": "MC_C11_twin2.cfg", "expect_violation": True},
               {"module": "MC_C11.tla", "cfg": "MC_C11_twin3.cfg", "expect_violation": True}], "expect_ops": ["DurLaws", "DurOp1"],
        "rule": "one case = one triple (a, b, c) + multiplier with all laws evaluated; every case is non-trivial (b is a respelling of a in 30%, "
                "a one-component perturbation in 10%, mixed signs and week forms throughout)",
        "assumptions": TRUST,
    },
    "C12": {
        "technique": "TLA+ recurrence constructor/iterator state machine (ImplRec.tla) model-checked (MC_C12, twins, known finding reproduced as counterexample) + TLC trace validation of step-by-step iteration (iterator state in Conform.tla)",
        "level_text": "The trace specification keeps the open iterator as state (inputs, points yielded so far, last point); every yielded point "
                      "must be the previous one plus/minus the interval as Ops.tla defines addition (so month/year intervals are covered), "
                      "stopping is accepted only with exactly n points including the anchor, and the three notations of an exact finite series "
                      "must be equal and iterate identically.",
        "drivers": ["c12"],
        "mc": [{"module": "MC_C12.tla", "cfg": "MC_C12.cfg", "may_be_idle": ["ShiftAct"], "coverage": True},
               {"module": "MC_C12.tla", "cfg": "MC_C12_nominal.cfg", "may_be_idle": ["ShiftAct"], "coverage": True},
               {"module": "MC_C12.tla", "cfg": "MC_C12_twin1.cfg", "expect_violation": True},
               {"module": "MC_C12.tla", "cfg": "MC_C12_twin2.cfg", "expect_violation": True, "tier": "thorough"},
               {"module": "MC_C12.tla", "cfg": "MC_C12_known.cfg", "expect_violation": True}], "expect_ops": ["IterOpen", "IterNext", "IterStop", "IterAbandon", "Notations"],
        "rule": "one case = one recurrence iterated to exhaustion (bounded, n <= 13) or 12 steps (unbounded), or one triple of notations; "
                "anchors come from the boundary generator, so every case is counted non-trivial",
        "assumptions": TRUST,
    },
    "C13": {
        "technique": "TLA+ get_first_after shortcut model-checked against the iterated series (MC_C12 FirstAfterAgrees, twin) + TLC trace validation of every query against the specification's `ser` state",
        "level_text": "Each recurrence is first iterated step by step (validated as in C12, which fills the specification's `ser` state); "
                      "get_is_valid, r[i], get_next, get_prev and get_first_after are then judged by TLC against that series on the timeline, "
                      "for members re-expressed in other offsets/representations, points 1 s either side, before the first and after the last.",
        "drivers": ["c13"],
        "mc": [{"module": "MC_C12.tla", "cfg": "MC_C12.cfg", "may_be_idle": ["ShiftAct"], "coverage": True},
               {"module": "MC_C12.tla", "cfg": "MC_C12_twin3.cfg", "expect_violation": True},
               # beyond the listed properties: min_point / max_point windows as the code implements them (WindowPrefix), and the
               # docstring's "subset" reading shown not to hold (WindowFilter is violated: a named deviation, see DESIGN 7)
               {"module": "MC_C12.tla", "cfg": "MC_Win.cfg", "tier": "thorough", "may_be_idle": ["ShiftAct"], "coverage": True},
               {"module": "MC_C12.tla", "cfg": "MC_Win_filter.cfg", "tier": "thorough", "expect_violation": True}],
        "expect_ops": ["IterOpen", "IterNext", "Query", "Window"],
        "rule": "one case = one recurrence with ~5 probes per member x 5 query kinds; all cases non-trivial",
        "assumptions": TRUST,
    },
    "C14": {
        "technique": "TLA+ shift action of the recurrence state machine model-checked (MC_C14, twin) + TLC trace validation of shifts, equality/hash pairs and text round trips",
        "level_text": "Shifts in all three operand forms are judged against the series recorded from the unshifted recurrence (same n and "
                      "interval, anchors moved by d, every point moved by exactly d for exact intervals, (r+d)-d == r); pairs of recurrences "
                      "differing in exactly one component / respelled / rebuilt are judged for ==, != , hash and identical iteration; "
                      "parse(str(r)) must equal r with the same points.",
        "drivers": ["c14"],
        "mc": [{"module": "MC_C12.tla", "cfg": "MC_C14.cfg", "coverage": True}, {"module": "MC_C12.tla", "cfg": "MC_C14_exact4.cfg"},
               {"module": "MC_C12.tla", "cfg": "MC_C14_twin1.cfg", "expect_violation": True}], "expect_ops": ["Shift", "RecEq", "RecText"],
        "rule": "one case = one shift, one pair, or one text round trip; all non-trivial (single-point recurrences of every notation included)",
        "assumptions": TRUST,
    },
    "C15": {
        "technique": "TLA+ state machine Lib.tla (mode + memo cache, invariant ModeDetermines) model-checked with TLC incl. 10 sensitivity twins; "
                     "TLC-generated histories replayed into one live process; TLC trace validation under the tracked mode",
        "level_text": "Lib.tla models the process-wide mode and the memo tables of the cached helpers; TLC checks that after every history "
                      "of SetMode/query actions each result equals the fresh single-mode result, and that dropping the mode from any one "
                      "helper's key is caught (ten twins). Every behaviour TLC explores to the generation depth, plus long seeded random "
                      "histories that interleave queries, arithmetic, subtraction and conversions, is replayed in one live Python process "
                      "without clearing caches; the trace spec tracks the mode through SetMode events and judges every event under it.",
        "drivers": ["c15"],
        "mc": [{"module": "MC_C15.tla", "cfg": "MC_C15.cfg", "cfg_quick": "MC_C15_quick.cfg", "coverage": True},
                {"module": "MC_C15.tla", "cfg": "MC_C15_twin1.cfg", "expect_violation": True},
                {"module": "MC_C15.tla", "cfg": "MC_C15_twin2.cfg", "expect_violation": True},
                {"module": "MC_C15.tla", "cfg": "MC_C15_twin3.cfg", "expect_violation": True},
                {"module": "MC_C15.tla", "cfg": "MC_C15_twin4.cfg", "expect_violation": True},
                {"module": "MC_C15.tla", "cfg": "MC_C15_twin5.cfg", "expect_violation": True},
                {"module": "MC_C15.tla", "cfg": "MC_C15_twin6.cfg", "expect_violation": True},
                {"module": "MC_C15.tla", "cfg": "MC_C15_twin7.cfg", "expect_violation": True},
                {"module": "MC_C15.tla", "cfg": "MC_C15_twin8.cfg", "expect_violation": True},
                {"module": "MC_C15.tla", "cfg": "MC_C15_twin9.cfg", "expect_violation": True},
                {"module": "MC_C15.tla", "cfg": "MC_C15_twin10.cfg", "expect_violation": True},],
        "expect_ops": ["SetMode", "CalQ", "Add", "SubTP", "Conv", "CliPoint"],
        "rule": "one case = one history (TLC-generated: depth 3-4 over 7 spellings + 4 probes; random: 150-400 steps); a history is "
                "non-trivial by construction (mode-sensitive probes on recurring years)",
        "exhaustive_part": {"quick": "all 1331 depth-3 behaviours of Lib.tla over 7 spellings + 4 probes", "thorough": "all depth-3 and depth-4 behaviours (15 972)"},
        "assumptions": TRUST,
    },
    "C16": {
        "technique": "TLA+ typed value-pool state machine (MC_C16.tla, action properties Immutable/AppendOnly) model-checked with TLC; its "
                     "behaviours (exhaustive depth 2 + simulated depth 14) replayed on concrete pools; TLC trace validation of per-slot digests after every step",
        "level_text": "MC_C16.tla lists every public operation with its operand and result types over a pool of 2 points, 2 durations, 1 zone, "
                      "2 recurrences and 1 truncated point; TLC checks the design is append-only and emits every operation sequence to depth 2 plus long simulated ones. "
                      "Each is run on concrete boundary values; after every step the harness re-snapshots every slot (str, hash and the public state - get_props / public "
                      "properties - recursively) and the trace spec requires every earlier digest unchanged - so mutation of an operand, of an earlier "
                      "result, or through shared state is caught at the step where it happens.",
        "drivers": ["c16"],
        "mc": [{"module": "MC_C16.tla", "cfg": "MC_C16.cfg", "cfg_quick": "MC_C16_quick.cfg"}],
        "expect_ops": ["PoolInit", "Op"],
        "rule": "one case = one operation sequence on one concrete pool; every case is non-trivial (each step re-inspects 7-20 slots)",
        "exhaustive_part": {"quick": "6000 of the 19 356 depth-2 operation sequences (seeded sample) + 400 simulated depth-14 sequences",
                            "thorough": "all 19 356 depth-2 sequences x 2 pools + 6000 simulated depth-14 sequences x 3 pools"},
        "assumptions": TRUST + ["the digest function snap() of harness/drivers/c16.py observes the whole public state (str, hash, get_props / public properties, recursively)"],
    },
    "C18": {
        "technique": "TLA+ spec (Ops.tla LocalZoneFn/EffectiveOffsetSec, Text.tla zone spellings, epoch on the timeline) + TLC trace validation; exhaustive enumeration of whole-minute zone configurations",
        "level_text": "Every whole-minute standard offset in +-24 h x daylight-offset variants x daylight flag x is-dst (-1/0/1) is installed "
                      "as the system zone configuration (the time module seen by timezone.py is replaced, as the repository's own fixture does) "
                      "and TLC checks the (hours, minutes) pair and the three text forms; Unix-time conversions in both directions are judged on "
                      "the integer timeline (day/second pairs, so counts beyond 2^31 are exact).",
        "drivers": ["c18"], "mc": [{"module": "MC_C18.tla", "cfg": "MC_C18.cfg"}], "expect_ops": ["LocalZone", "FromEpoch", "SinceEpoch"],
        "rule": "one case = one zone configuration, or one epoch conversion; non-trivial zone = non-whole-hour, west of UTC or in daylight time",
        "exhaustive": {"quick": False, "thorough": False},
        "exhaustive_part": {"quick": "all 2881 whole-minute standard offsets x 2 daylight deltas x 5 flag combinations",
                            "thorough": "all 2881 offsets x 7 daylight deltas x 5 flag combinations"},
        "assumptions": TRUST,
    },
    "C20": {
        "technique": "TLA+ add_truncated loops (ImplTrunc.tla) model-checked for termination and earliest match (MC_C20 on the whole universe, 4 twins incl. the pre-repair search order and the pre-repair hour-24 loop) + TLC trace validation of truncated additions under a watchdog",
        "level_text": "For every recorded t + p (either order) TLC checks the result matches t's fields read in the right offset, is not earlier "
                      "than p, is the EARLIEST such date-time (no matching day in between, least matching time of day), carries p's offset, is "
                      "valid, and that applying t again changes nothing; every call runs under a 5 s watchdog.",
        "drivers": ["c20"],
        "mc": [{"module": "MC_C20.tla", "cfg": "MC_C20.cfg", "coverage": True},
               {"module": "MC_C20.tla", "cfg": "MC_C20_twin1.cfg", "expect_violation": True},
               {"module": "MC_C20.tla", "cfg": "MC_C20_twin2.cfg", "expect_violation": True},
               {"module": "MC_C20.tla", "cfg": "MC_C20_known.cfg", "expect_violation": True},
               {"module": "MC_C20.tla", "cfg": "MC_C20_twin3.cfg", "expect_violation": True}], "expect_ops": ["TruncAdd"],
        "rule": "one case = one truncated addition; shapes h/hm/hms/m/ms/s/none x day designators incl. day 29-31, 366, week 53; all non-trivial",
        "assumptions": TRUST,
    },
    "C07": {
        "technique": "TLA+ notation spec (Text.tla) model-checked for unambiguity with TLC; TLC-generated (date x time x zone) form cross product replayed into the real parser; TLC trace validation of decoded fields and dump-as-parsed text",
        "level_text": "Text.tla transcribes the documented notation; TLC checks over a boundary universe that no two well-formed expressions with "
                      "the same text denote different values, and emits every form combination (and the mixed basic/extended ones that must be "
                      "refused). For each, boundary and swept field values are rendered, parsed by the real TimePointParser under varying "
                      "configurations (expanded digits, basic-only, assumed / unknown / system zone), and TLC requires: the text is what the spec "
                      "renders, the decoded representation/fields/fraction/offset are exactly the generated ones, and dump-as-parsed reproduces the input.",
        "drivers": ["c07", "c07t"], "mc": [{"module": "MC_C07.tla", "cfg": "MC_C07.cfg"}, {"module": "MC_C08.tla", "cfg": "MC_C08.cfg"}], "expect_ops": ["ParseTP", "ParseTrunc"],
        "rule": "one case = one text under one parser configuration; all cases use boundary-biased values (non-trivial)",
        "exhaustive_part": {"quick": "all form combinations x 30 value draws; every year 0000-9999 in CCYY-MM-DD", "thorough": "all form combinations x 500 draws; every year 0000-9999 in 6 forms; years -20000..20000 with 2 extra digits"},
        "assumptions": TRUST,
    },
    "C08": {
        "technique": "TLA+ notation retraction Match o Render = id model-checked (MC_C08) + TLC trace validation of str/parse/str and custom-dump round trips against value sameness and the timeline",
        "level_text": "For valid points of every representation, precision form (decimals of <= 6 digits), 24:00, offset class and year range TLC "
                      "requires parse(str(p)) to carry the same representation, fields, fraction and offset as p, to compare equal, and "
                      "str to be a fixpoint; custom complete dump formats (other representation, basic/extended, literal zones) must parse back "
                      "to the same instant. No default text is pinned (DESIGN section 3).",
        "drivers": ["c08"], "mc": [{"module": "MC_C08.tla", "cfg": "MC_C08.cfg"}], "expect_ops": ["StrTrip", "DumpTrip"],
        "rule": "one case = one time point with its default round trip and up to 3 custom formats; boundary-biased (non-trivial)",
        "assumptions": TRUST,
    },
    "C09": {
        "technique": "TLA+ acceptance tables (Val.tla ValidCal/ValidOrd/ValidWeek/ValidZone) model-checked against the calendar definition; TLC trace validation of constructor / text acceptance over the whole table and of fuzzed parser outcomes under a watchdog",
        "level_text": "TLC checks the spec's validity tables equal 'some day of the calendar converts to these fields' for every year type and mode; "
                      "the whole table (month -1..14 x day -1..33, day-of-year, week x weekday, hour x minute x second, zone parts) is pushed through "
                      "the real constructor and, where representable, through the text notations, and TLC requires accept <=> valid with a "
                      "ValueError-derived refusal; mutated/spliced/non-ASCII texts for the three parsers must give a valid object or a ValueError subclass within the watchdog.",
        "drivers": ["c09"], "mc": [{"module": "MC_C09.tla", "cfg": "MC_C09.cfg"}], "expect_ops": ["Ctor", "ParseTP", "Fuzz"],
        "rule": "one case = one field tuple / one text; non-trivial = everything except fuzz texts that were refused",
        "exhaustive_part": {"quick": "the full constructor table for 12 (mode, year type) pairs", "thorough": "the full table for 40 (mode, year) pairs"},
        "assumptions": TRUST,
    },
    "C10": {
        "technique": "TLA+ duration notation (Text.tla, TextMatch.tla) with the retraction model-checked (MC_C10) + TLC trace validation of text->value, value->text->value and alternative-spelling events",
        "level_text": "Designator texts are rendered from generation records (each unit absent/zero/present, decimals on the last time unit with "
                      "comma or point, weeks form, leading '-'); TLC re-renders the text, computes the value the designators denote and requires "
                      "the parsed Duration to be that value, parse(str(d)) == d and str to be a fixpoint; single-signed Duration objects make the "
                      "same round trip; the alternative P[YYYY]-[MM]-[DD]T[hh]:[mm]:[ss] spelling (basic/extended, calendar/ordinal) must parse to the same duration as its designator spelling.",
        "drivers": ["c10"], "mc": [{"module": "MC_C10.tla", "cfg": "MC_C10.cfg"}], "expect_ops": ["DurParse", "DurObj", "DurAlt"],
        "rule": "one case = one duration text or object; all non-trivial",
        "assumptions": TRUST,
    },
    "C17": {
        "technique": "TLA+ POSIX rendering and strptime reading (Text.tla, TextMatch.tla) with inversion model-checked (MC_C17) + TLC trace validation of strftime output and strptime inversion",
        "level_text": "For points of all three representations and any offset, in every year 0001-9998 (swept) and random formats over the supported "
                      "directives and literal text, TLC renders what POSIX strftime gives for the civil date-time (via the calendar definition, "
                      "whatever the representation; %s as the Unix time on the timeline) and requires the library's text to be identical; strptime "
                      "of that text must recover the date/time/offset the format determines (defaults otherwise); unsupported %-letters must be refused with a ValueError-derived error.",
        "drivers": ["c17"], "mc": [{"module": "MC_C17.tla", "cfg": "MC_C17.cfg"}], "expect_ops": ["Strf", "Strp"],
        "rule": "one case = one (point, format); all non-trivial (week-date points near week-year edges, day-of-year, negative-minute offsets)",
        "exhaustive_part": {"quick": "every year 0001-9998 once", "thorough": "every year 0001-9998 three times"},
        "assumptions": TRUST,
    },
    "C19": {
        "technique": "Lib.tla Cli action model-checked for option/environment precedence (MC_C19, twin); TLA+ composition on the spec side (Conform.tla CliPointClause = parse . shift* . render over Text.tla and Ops.tla; CliDiffClause on the timeline; printed recurrences through the iterator state machine) + TLC trace validation of in-process CLI runs",
        "level_text": "Argument vectors are built from generation records in every documented notation; main(argv) runs in-process with stdout, "
                      "exit status and any escaping exception captured. TLC derives, from the same records, what must be printed: the input "
                      "shifted by the offsets (exact, then months, then years) rendered in its own notation; for two date-times the printed "
                      "duration d (or --as-total) must satisfy first + d = second on the timeline; a recurrence's printed lines, read back, "
                      "must be the series under the calendar selected by --calendar / ISODATETIMECALENDAR; malformed arguments in every slot must give a non-zero exit with a message and no traceback.",
        "drivers": ["c19"],
        "mc": [{"module": "MC_C15.tla", "cfg": "MC_C19.cfg"}, {"module": "MC_C15.tla", "cfg": "MC_C19_twin1.cfg", "expect_violation": True}], "expect_ops": ["CliPoint", "CliDiff", "CliRec", "CliBad", "CliTotal"],
        "rule": "one case = one argument vector; all non-trivial (boundary dates, every notation, offsets of either sign incl. -P spellings)",
        "assumptions": TRUST + ["DurationParser / TimePointParser read back the CLI's own output (validated by C07, C10)"],
    },
    "C03": {
        "technique": "TLA+ calendar definition (Cal.tla) model-checked with TLC (+ Apalache lemmas for all integer years: year length, 400-year and weekday periodicity, ISO week-year rules; CalLemmas.tla, thorough tier) and TLC trace validation of every conversion row of the real helpers",
        "level_text": "Cal.tla is the proleptic definition; TLC checks it is self-consistent (inverse pairs, week rule, lengths) on every day "
                      "of the explored years, and every row produced by the six real conversion functions and the calendar queries is "
                      "validated by TLC against it - exhaustively over a 400-year cycle x 4 modes in the thorough tier.",
        "drivers": ["c03"],
        "mc": [{"module": "MC_C03.tla", "cfg": "MC_C03.cfg", "cfg_quick": "MC_C03_quick.cfg"}],
        "apalache": [{"module": "CalLemmas.tla", "inv": "Lemmas"}, {"module": "CalLemmas.tla", "inv": "WeekLemmas"}],
        "expect_ops": ["CalYear", "CalRange", "Conv"],
        "rule": "one case = one (mode spelling, year) with all 6 conversion directions for every day of that year, "
                "or one batch of year-range queries, or one object-level conversion; non-trivial = year is a leap, "
                "century, non-positive, >9999 or 53-week year (year cases), every range batch and conversion",
        "exhaustive_part": {"quick": "every day of 1996-2060, all century years 1600-2400, years -5..5, 9998-10001 "
                                     "and every 7th year of -401..1, x 4 modes",
                            "thorough": "every day of the full 400-year cycle 2000-2399 x 4 modes (complete quotient of "
                                        "the Gregorian calendar; the fixed calendars repeat after 7 years)"},
        "assumptions": TRUST,
    },
}
