"""Per-property registry: which drivers execute the library, which MC instances check the spec."""
TRUST = ["TLC 1.8 / SANY / CommunityModules Json+IOUtils evaluate the specification faithfully",
         "harness/common.py proj_* (reads public accessors and slots; exact float->integer conversion with fractions)",
         "Cal.tla / Ops.tla / Text.tla are a faithful transcription of ISO 8601 and the library's documented behaviour"]

NOT_APPLICABLE = {}

PROPS = {
    "C01": {
        "technique": "TLA+ spec (Ops.tla AddExactClause on the integer timeline) + TLC trace validation of recorded p+d executions",
        "level_text": "Every recorded addition of the real library is judged by TLC against the abstract postcondition of Ops.tla "
                      "(instant shifted exactly, same representation and offset, all fields valid) under the mode the trace spec tracks; "
                      "systematic day-by-day sweeps over every year type and mode plus seeded random points/durations.",
        "drivers": ["c01"],
        "mc": [],
        "expect_ops": ["Add"],
        "rule": "one case = one addition p + d / d + p / p - (-d) under one mode spelling; non-trivial = the result's "
                "date fields differ from the operand's (a day, month, year, leap-day or week-year boundary was crossed)",
        "exhaustive_part": {"quick": "every day of 8 (mode, year-type) combinations as a start x 8 unit steps",
                            "thorough": "every day of 34 (mode, year-type) combinations x 3 representations x 8 unit steps"},
        "assumptions": TRUST,
    },
    "C03": {
        "technique": "TLA+ calendar definition (Cal.tla) model-checked with TLC (+ Apalache lemmas) and TLC trace validation of every conversion row of the real helpers",
        "level_text": "Cal.tla is the proleptic definition; TLC checks it is self-consistent (inverse pairs, week rule, lengths) on every day "
                      "of the explored years, and every row produced by the six real conversion functions and the calendar queries is "
                      "validated by TLC against it - exhaustively over a 400-year cycle x 4 modes in the thorough tier.",
        "drivers": ["c03"],
        "mc": [{"module": "MC_C03.tla", "cfg": "MC_C03.cfg", "cfg_quick": "MC_C03_quick.cfg"}],
        "expect_ops": ["CalYear", "CalRange", "Conv"],
        "rule": "one case = one (mode spelling, year) with all 6 conversion directions for every day of that year, "
                "or one batch of year-range queries, or one object-level conversion; non-trivial = year is a leap, "
                "century, non-positive, >9999 or 53-week year (year cases), every range batch and conversion",
        "exhaustive_part": {"quick": "every day of 1996-2028, all century years 1600-2400, years -5..5, 9998-10001 "
                                     "and every 7th year of -401..1, x 4 modes",
                            "thorough": "every day of the full 400-year cycle 2000-2399 x 4 modes (complete quotient of "
                                        "the Gregorian calendar; the fixed calendars repeat after 7 years)"},
        "assumptions": TRUST,
    },
}
