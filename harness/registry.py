"""Per-property registry: which drivers execute the library, which MC instances check the spec."""
TRUST = ["TLC 1.8 / SANY / CommunityModules Json+IOUtils evaluate the specification faithfully",
         "harness/common.py proj_* (reads public accessors and slots; exact float->integer conversion with fractions)",
         "Cal.tla / Ops.tla / Text.tla are a faithful transcription of ISO 8601 and the library's documented behaviour"]

PROPS = {
    "C03": {
        "drivers": ["c03"],
        "mc": [{"module": "MC_C03.tla", "cfg": "MC_C03.cfg", "cfg_quick": "MC_C03_quick.cfg"}],
        "expect_ops": ["CalYear", "CalRange", "Conv"],
        "rule": "one case = one (mode spelling, year) with all 6 conversion directions for every day of that year, "
                "or one batch of year-range queries, or one object-level conversion; non-trivial = year is a leap, "
                "century, non-positive, >9999 or 53-week year (year cases), every range batch and conversion",
        "exhaustive_part": {"quick": "every day of 1996-2028, all century years 1600-2400, years -5..5, 9998-10001 "
                                     "and every 7th year of -401..1, x 4 modes",
                            "thorough": "every day of the full 400-year cycle 2000-2399 x 4 modes (complete quotient of "
                                        "the Gregorian calendar; the fixed calendars repeat after 7 years)"},
        "assumptions": TRUST,
    },
}
