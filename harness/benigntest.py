"""No-false-alarm regression: behaviour-preserving refactors (selftest/benign/*.diff) are applied to a scratch worktree of
/repo HEAD and the checks must stay silent (exit 0).  usage: benigntest.py [--props C01,C02,...] [--all] [--only name,...]
(the four hand-written refactors run against the properties their code touches; the sub-agent written ones, B??, against all twenty)"""
import glob
import json
import os
import subprocess
import sys
import tempfile

ROOT = os.path.dirname(os.path.dirname(os.path.abspath(__file__)))
PROPS = {"memoised-hash-with-invalidation": ["C02", "C06", "C16"], "closed-form-leap-rule": ["C03", "C15", "C01"],
         "empty-duration-spelled-P0D": ["C10", "C11", "C14", "C19"], "month-at-a-time-day-carry": ["C01", "C05", "C04", "C20"]}


ALL = ["C%02d" % i for i in range(1, 21)]


def main():
    only = None
    for i, a in enumerate(sys.argv):
        if a == "--props":
            only = set(sys.argv[i + 1].split(","))
    for d in sorted(glob.glob(os.path.join(ROOT, "selftest", "benign", "*.diff"))):
        name = os.path.basename(d)[:-5]
        if "--only" in sys.argv and name not in sys.argv[sys.argv.index("--only") + 1].split(","):
            continue
        wt = tempfile.mkdtemp(prefix="isodt_benign_")
        os.rmdir(wt)
        subprocess.run(["git", "-C", "/repo", "worktree", "add", "-q", "--detach", wt, "HEAD"], check=True)
        try:
            subprocess.run(["git", "-C", wt, "apply", d], check=True)
            res = {}
            notes = {}
            for p in (ALL if "--all" in sys.argv else PROPS.get(name, ALL)):
                if only and p not in only:
                    continue
                r = subprocess.run([os.path.join(ROOT, "check"), p], cwd=ROOT, capture_output=True, text=True,
                                   env=dict(os.environ, VERIF_REPO=wt, VERIF_NO_EVIDENCE="1", VERIF_REPLAY_DIR=os.path.join(wt, ".rp")))
                res[p] = r.returncode
                if r.returncode != 0:
                    notes[p] = [ln.strip()[:400] for ln in (r.stdout + r.stderr).splitlines() if ln.startswith(("VIOLATION", "  ", "MACHINERY"))][:4]
                devs = [ln[:200] for ln in r.stdout.splitlines() if ln.startswith("SPEC-DEVIATION")]
                if devs:
                    notes.setdefault(p + ":spec-deviation", devs)
            print(json.dumps({"refactor": name, "exit_codes": res, "silent": all(v == 0 for v in res.values()), "notes": notes}), flush=True)
        finally:
            subprocess.run(["git", "-C", "/repo", "worktree", "remove", "--force", wt])


if __name__ == "__main__":
    main()
