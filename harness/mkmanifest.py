"""Regenerate MANIFEST.json from the registry (so it is valid at all times)."""
import json
import os
import sys

ROOT = os.path.dirname(os.path.dirname(os.path.abspath(__file__)))
sys.path.insert(0, ROOT)
from harness import registry  # noqa: E402

BASE = ("cd /repo && /venv/bin/python -m pytest -ra -q -p no:cacheprovider --timeout=900 "
        "--continue-on-collection-errors --junitxml=/tmp/isodt_baseline_off.junit.xml")
ALL = ["C%02d" % i for i in range(1, 21)]


def main():
    checks = []
    for pid in ALL:
        sp = registry.PROPS.get(pid)
        if not sp:
            continue
        checks.append({
            "property_id": pid,
            "quick_cmd": "./check %s --tier quick" % pid,
            "thorough_cmd": "./check %s --tier thorough" % pid,
            "evidence_file": "/verif/evidence/%s.json" % pid,
            "replay_cmd_template": "./check %s --replay {path}" % pid,
            "engine": "tlc",
            "level_claimed": {"category": "model_checking", "text": sp["level_text"], "design_ref": sp.get("design_ref", "DESIGN.md section 5")},
            "level_note": sp.get("level_note", "Trusted: TLC/SANY/CommunityModules; the projection functions of harness/common.py; "
                                               "the transcription of ISO 8601 / README into Cal.tla, Ops.tla, Text.tla. Bounded: finite "
                                               "quotients are enumerated completely, the unbounded remainder is sampled with VERIF_SEED."),
            "technique": sp["technique"],
        })
    na = [{"property_id": pid, "reason": registry.NOT_APPLICABLE.get(pid, "check not built yet in this round")}
          for pid in ALL if pid not in registry.PROPS]
    man = {
        "version": 1,
        "setup_cmd": "cd /verif && ./setup.sh",
        "hooks": {"guard": "ISODATETIME_VERIF",
                  "enable": "ISODATETIME_VERIF=1 is set by ./check; the tracer wraps the library from outside (harness/), no source file of /repo carries a hook",
                  "baseline_off_cmd": BASE, "source_commits": [], "add_only": True},
        "engines": [
            {"name": "tlc", "path": "/opt/veriftools/tla/tla2tools.jar", "serves_properties": [c["property_id"] for c in checks],
             "kind_free_text": "TLC 1.8 explicit-state model checker: (a) model-checks the MC_* instances of the TLA+ specification, "
                               "(b) validates traces recorded from the real library against Conform.tla, (c) generates behaviours replayed into the library"},
            {"name": "apalache", "path": "/opt/veriftools/apalache", "serves_properties": ["C03"],
             "kind_free_text": "Apalache 0.58: unbounded integer lemmas of Cal.tla (thorough tier)"}],
        "checks": checks,
        "not_applicable": na,
        "notes": "Model-based verification with an explicit TLA+ specification (spec/*.tla); see DESIGN.md. Exit 2 = machinery failure.",
    }
    with open(os.path.join(ROOT, "MANIFEST.json"), "w") as f:
        json.dump(man, f, indent=1)
    print("MANIFEST.json: %d checks, %d not_applicable" % (len(checks), len(na)))


if __name__ == "__main__":
    main()
