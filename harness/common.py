"""Shared harness code: imports the library from /repo's working tree, projects
library values to the integer records of Val.tla, builds library values from
spec-level records, and records events.

`proj_*` is the trusted Python of the framework (DESIGN section 3): it only reads
public accessors / slots and converts floats exactly with `fractions`.
"""
import json
import os
import sys
from fractions import Fraction

REPO = os.environ.get("VERIF_REPO", "/repo")
if sys.path[0] != REPO:
    sys.path.insert(0, REPO)

from metomi.isodatetime import data as D  # noqa: E402
from metomi.isodatetime.data import (  # noqa: E402
    Calendar, Duration, TimePoint, TimeRecurrence, TimeZone)

assert os.path.realpath(D.__file__).startswith(os.path.realpath(REPO)), D.__file__

MEG = 1000000
DAY = 86400
BIG = 1 << 30

MEANING = {"360day": "360day", "360_day": "360day", "365day": "365day",
           "365_day": "365day", "366day": "366day", "366_day": "366day",
           "gregorian": "gregorian"}
MODES = ["gregorian", "360day", "365day", "366day"]
SPELLINGS = ["gregorian", "360day", "360_day", "365day", "365_day", "366day", "366_day"]


def set_mode(sp):
    Calendar.default().set_mode(sp)


def cur_mode():
    return MEANING.get(str(Calendar.default().mode).lower(), "gregorian")


def I(x):
    """An int that TLC / JsonDeserialize can hold (|x| < 2^30); out-of-range and
    non-integral values are clamped to a sentinel that no valid value uses."""
    try:
        if x is None:
            return -BIG
        if isinstance(x, float) and (x != x or x in (float("inf"), float("-inf"))):
            return BIG
        v = int(x)
    except Exception:
        return BIG
    if v > BIG:
        return BIG
    if v < -BIG:
        return -BIG
    return v


def _is_frac(x):
    return x is not None and Fraction(x).denominator != 1


def tod_us(h, mi, s):
    """Exact time of day in microseconds (rounded to nearest) from the three fields."""
    tot = Fraction(h) * 3600
    if mi is not None:
        tot += Fraction(mi) * 60
    if s is not None:
        tot += Fraction(s)
    return int(round(tot * MEG))


NOTP = {"rep": "none", "y": 0, "a": 0, "b": 0, "prec": "hms", "hh": 0, "mi": 0, "ss": 0,
        "sod": 0, "us": 0, "fu": 0, "frac": False, "zh": 0, "zm": 0, "xd": 0}


def proj_tp(p):
    """Projection of a non-truncated TimePoint (record format of Val.tla)."""
    if p is None:
        return dict(NOTP)
    if p._month_of_year is not None:
        rep, a, b = "cal", p._month_of_year, p._day_of_month
    elif p._day_of_year is not None:
        rep, a, b = "ord", p._day_of_year, 0
    elif p._week_of_year is not None:
        rep, a, b = "week", p._week_of_year, p._day_of_week
    else:
        rep, a, b = "none", 0, 0
    h, mi, s = p._hour_of_day, p._minute_of_hour, p._second_of_minute
    if h is None:
        h = 0
    prec = "hms" if s is not None else ("hm" if mi is not None else "h")
    frac = _is_frac(h) or _is_frac(mi) or _is_frac(s)
    tus = tod_us(h, mi, s)
    if frac and int(h) < 24 and tus >= DAY * MEG:
        tus = DAY * MEG - 1      # rounding of 23:59:59.9999996 must not fabricate 24:00
    sod, us = divmod(tus, MEG)
    last = s if s is not None else (mi if mi is not None else h)      # fraction of the last unit, in micro-units
    fu = int(round((Fraction(last) - int(last)) * MEG))
    tz = p._time_zone
    return {"rep": rep, "y": I(p._year), "a": I(a), "b": I(b), "prec": prec,
            "hh": I(int(h)), "mi": I(int(mi)) if mi is not None else -1,
            "ss": I(int(s)) if s is not None else -1,
            "sod": I(sod), "us": I(us), "fu": I(fu), "frac": bool(frac),
            "zh": I(tz._hours), "zm": I(tz._minutes),
            "xd": I(p._num_expanded_year_digits)}


def proj_dur(d):
    """Projection of a Duration (TimeZone included: it is a Duration)."""
    if d is None:
        return {"wk": False, "w": 0, "y": 0, "mo": 0, "d": 0, "h": 0, "mi": 0, "s": 0,
                "len": [0, 0, 0], "frac": False, "none": True}
    if d._weeks is not None:
        y = mo = 0
        days, h, mi, s = d._weeks * 7, 0, 0, 0
        wk, w = True, d._weeks
    else:
        y, mo, days, h, mi, s = d._years, d._months, d._days, d._hours, d._minutes, d._seconds
        wk, w = False, 0
    frac = any(_is_frac(x) for x in (y, mo, days, h, mi, s, w))
    tot = Fraction(days) * DAY + Fraction(h) * 3600 + Fraction(mi) * 60 + Fraction(s)
    tus = int(round(tot * MEG))
    dd, rem = divmod(tus, DAY * MEG)
    ss, us = divmod(rem, MEG)
    return {"wk": wk, "w": I(w), "y": I(y), "mo": I(mo), "d": I(int(days)), "h": I(int(h)),
            "mi": I(int(mi)), "s": I(int(s)), "len": [I(dd), I(ss), I(us)],
            "frac": bool(frac), "none": False}


def proj_zone(z):
    return {"zh": I(z._hours), "zm": I(z._minutes), "zu": bool(z._unknown)}


def proj_rec(r):
    return {"fmt": I(r._format_number), "n": I(r._repetitions) if r._repetitions is not None else 0,
            "hasStart": r._start_point is not None, "start": proj_tp(r._start_point),
            "hasEnd": r._end_point is not None, "end": proj_tp(r._end_point),
            "hasDur": r._duration is not None, "dur": proj_dur(r._duration)}


TRUNC_FIELDS = ["month_of_year", "week_of_year", "day_of_year", "day_of_month", "day_of_week",
                "hour_of_day", "minute_of_hour", "second_of_minute"]


def proj_trunc(t):
    """Projection of a truncated TimePoint: each field or -1 when unspecified (fractions as micro)."""
    out = {"trunc": True}
    props = t.get_truncated_properties() or {}
    for k, short in (("year_of_century", "yc"), ("year_of_decade", "yd"), ("month_of_year", "mo"),
                     ("week_of_year", "woy"), ("day_of_year", "doy"), ("day_of_month", "dom"),
                     ("day_of_week", "dow")):
        out[short] = I(props[k]) if k in props else -1
    for k, short in (("hour_of_day", "hh"), ("minute_of_hour", "mi"), ("second_of_minute", "ss")):
        v = props.get(k)
        out[short] = I(int(v)) if v is not None else -1
        out[short + "us"] = I(int(round((Fraction(v) - int(v)) * MEG))) if v is not None else 0
    tz = t._time_zone
    out.update(zh=I(tz._hours), zm=I(tz._minutes), zu=bool(tz._unknown))
    return out


# --------------------------------------------------------------------------- builders
def tp_kwargs(r):
    """Constructor keyword arguments for a spec-level time point record.
    r: rep,y,a,b,prec,hh,mi,ss,zh,zm,xd and optional 'dec' (digits after the decimal mark of the last unit)."""
    kw = {"year": r["y"], "num_expanded_year_digits": r.get("xd", 0)}
    if r["rep"] == "cal":
        kw.update(month_of_year=r["a"], day_of_month=r["b"])
    elif r["rep"] == "ord":
        kw.update(day_of_year=r["a"])
    else:
        kw.update(week_of_year=r["a"], day_of_week=r["b"])
    dec = r.get("dec")
    decv = float("0." + dec) if dec else 0.0
    kw["hour_of_day"] = r["hh"]
    if r["prec"] == "h":
        kw["hour_of_day_decimal"] = decv
    elif r["prec"] == "hm":
        kw.update(minute_of_hour=r["mi"], minute_of_hour_decimal=decv)
    else:
        kw.update(minute_of_hour=r["mi"], second_of_minute=r["ss"])
        if dec:
            kw["second_of_minute_decimal"] = decv
    kw.update(time_zone_hour=r.get("zh", 0), time_zone_minute=r.get("zm", 0))
    return kw


def mk_tp(r):
    return TimePoint(**tp_kwargs(r))


def sod_fields(sod):
    return sod // 3600, (sod % 3600) // 60, sod % 60


def tp_rec(rep, y, a, b, sod=0, prec="hms", zh=0, zm=0, xd=0, dec=None):
    """Convenience: a spec-level record from a second-of-day (86400 = 24:00)."""
    if sod == DAY:
        hh, mi, ss = 24, 0, 0
    else:
        hh, mi, ss = sod_fields(sod)
    r = {"rep": rep, "y": y, "a": a, "b": b, "prec": prec, "hh": hh,
         "mi": mi if prec != "h" else -1, "ss": ss if prec == "hms" else -1,
         "zh": zh, "zm": zm, "xd": xd}
    if dec:
        r["dec"] = dec
    return r


def mk_dur(r):
    """r: either {'w': n} or any of y, mo, d, h, mi, s (ints or floats)."""
    if "w" in r and r["w"] is not None and not any(r.get(k) for k in ("y", "mo", "d", "h", "mi", "s")):
        return Duration(weeks=r["w"])
    return Duration(years=r.get("y", 0), months=r.get("mo", 0), days=r.get("d", 0),
                    hours=r.get("h", 0), minutes=r.get("mi", 0), seconds=r.get("s", 0))


def respellings(p, rnd):
    """Other TimePoints denoting the instant of the whole-second point p: another offset and the other date representations.
    (Operands for "same operation, same process, equal instant written differently" cases: a result must depend on how
    its operand is written exactly as the property says, never on an earlier equal-instant operand.)"""
    zh, zm = rnd.choice([(0, 0), (1, 0), (-3, -30), (5, 45), (-11, 0), (13, 45), (0, 30), (0, -30)])
    out = [p.to_time_zone(TimeZone(hours=zh, minutes=zm))]
    out += [f() for f in (p.to_week_date, p.to_ordinal_date, p.to_calendar_date) if True]
    return [q for q in out if not (q._year == p._year and q._month_of_year == p._month_of_year and q._day_of_year == p._day_of_year
                                   and q._week_of_year == p._week_of_year and q._time_zone._hours == p._time_zone._hours
                                   and q._time_zone._minutes == p._time_zone._minutes)]


# --------------------------------------------------------------------------- watchdog
class cpu_watchdog:
    """Raise `exc` inside the block once it has used `seconds` of this process's own CPU time (ITIMER_VIRTUAL), so that
    a library call that never returns becomes an observable outcome.  CPU time, not wall-clock time: a loaded machine
    (other checks running on the same cores) cannot turn a slow-but-terminating call into a reported hang."""

    def __init__(self, seconds, exc):
        self.seconds, self.exc = seconds, exc

    def _fire(self, signum, frame):
        raise self.exc()

    def __enter__(self):
        import signal
        self._old = signal.signal(signal.SIGVTALRM, self._fire)
        signal.setitimer(signal.ITIMER_VIRTUAL, self.seconds)
        return self

    def __exit__(self, *a):
        import signal
        signal.setitimer(signal.ITIMER_VIRTUAL, 0)
        signal.signal(signal.SIGVTALRM, self._old)
        return False


def mk_dur_via(r, via=None):
    """mk_dur, or (via == "parse") the same duration as DurationParser reads it from its designator text: components that a
    constructor call gives as ints arrive as floats (PT1H -> hours=1.0), which must make no difference."""
    single = all(v >= 0 for v in r.values()) or all(v <= 0 for v in r.values())
    if via == "parse" and single and all(float(v).is_integer() for v in r.values()):
        from harness import render
        from metomi.isodatetime.parsers import DurationParser
        return DurationParser().parse(render.dur_desc_text(r))
    if via == "floatdays" and "w" not in r:
        # whole numbers handed over as floats (Duration(days=2.0, hours=3.0)): "integer-like" values are accepted
        return Duration(years=r.get("y", 0), months=r.get("mo", 0), days=float(r.get("d", 0)), hours=float(r.get("h", 0)),
                        minutes=float(r.get("mi", 0)), seconds=float(r.get("s", 0)))
    if via == "standardize" and "w" not in r:
        # the constructor's standardize option carries seconds -> minutes -> hours -> days; the duration asked for stays the same
        return Duration(years=r.get("y", 0), months=r.get("mo", 0), days=r.get("d", 0), hours=r.get("h", 0),
                        minutes=r.get("mi", 0), seconds=r.get("s", 0), standardize=True)
    return mk_dur(r)


# --------------------------------------------------------------------------- recorder
class Recorder:
    """Collects events (ints / strings / bools / lists / dicts only; no null, no floats)."""

    def __init__(self):
        self.events = []
        self.cases = []

    def case(self, desc):
        self.cases.append(desc)
        return len(self.cases) - 1

    def ev(self, op, cid, **fields):
        e = {"op": op, "cid": cid}
        e.update(fields)
        self.events.append(e)
        return e

    def begin(self, cid):
        self.ev("Begin", cid, cm=cur_mode())


def outcome(fn):
    """Run fn; return ('ok', value) or ('err', exception)."""
    try:
        return "ok", fn()
    except RecursionError as exc:
        return "err", exc
    except Exception as exc:  # noqa: BLE001 - every exception class is an observable outcome
        return "err", exc


def err_info(exc):
    return {"cls": type(exc).__name__, "ve": isinstance(exc, ValueError)}


def check_json(obj, path="$"):
    """Machinery self-check: the trace must contain only what TLC's JsonDeserialize reads faithfully."""
    if isinstance(obj, bool) or isinstance(obj, str):
        return
    if isinstance(obj, int):
        if abs(obj) > BIG:
            raise ValueError("integer out of range at %s: %r" % (path, obj))
        return
    if isinstance(obj, list):
        for i, x in enumerate(obj):
            check_json(x, "%s[%d]" % (path, i))
        return
    if isinstance(obj, dict):
        for k, v in obj.items():
            check_json(v, "%s.%s" % (path, k))
        return
    raise ValueError("unsupported JSON value at %s: %r" % (path, obj))
