"""Run TLC (model checking of the specification, and validation of recorded traces) and parse its output."""
import json
import os
import re
import shutil
import subprocess
import tempfile
import time
from concurrent.futures import ThreadPoolExecutor

SPEC_DIR = os.path.join(os.path.dirname(os.path.dirname(os.path.abspath(__file__))), "spec")
JAVA_CP = "/opt/veriftools/tla/tla2tools.jar:/opt/veriftools/tla/CommunityModules-deps.jar"


class MachineryError(Exception):
    pass


def _java(args, env=None, timeout=None, heap="2g", cwd=SPEC_DIR, gcthreads=2):
    gc = ["-XX:+UseSerialGC", "-XX:CICompilerCount=2"] if gcthreads <= 2 else ["-XX:+UseParallelGC", "-XX:ParallelGCThreads=%d" % gcthreads]
    # TLC unpacks its standard modules into <java.io.tmpdir>/tlc-<n> on every start and leaves them there: keep that inside
    # the run's own scratch directory (the -metadir argument), which is removed afterwards
    tmp = []
    if "-metadir" in args:
        tmp = ["-Djava.io.tmpdir=" + args[args.index("-metadir") + 1]]
    cmd = ["java"] + gc + tmp + ["-Xmx" + heap, "-Xss64m", "-cp", JAVA_CP, "tlc2.TLC"] + args
    e = dict(os.environ)
    if env:
        e.update(env)
    t0 = time.time()
    try:
        p = subprocess.run(cmd, cwd=cwd, env=e, capture_output=True, text=True, timeout=timeout)
    except subprocess.TimeoutExpired as exc:
        raise MachineryError("TLC timed out after %ss: %s" % (timeout, " ".join(args))) from exc
    return p.returncode, p.stdout + p.stderr, time.time() - t0


_STATS = re.compile(r"(\d+) states generated, (\d+) distinct states found, (\d+) states left on queue")


def parse_stats(out):
    m = None
    for m in _STATS.finditer(out):
        pass
    if not m:
        return None
    return {"generated": int(m.group(1)), "distinct": int(m.group(2)), "queue": int(m.group(3))}


def _tuples(out, tag):
    """PrintT tuples <<"TAG", ...>> of integers and strings; TLC pretty-prints long ones over several lines."""
    res = []
    for m in re.finditer(r'<<\s*"%s"\s*,(.*?)>>' % tag, out, re.S):
        res.append(_parse_tla_tuple('<<"%s",%s>>' % (tag, " ".join(m.group(1).split()))))
    return res


def _parse_tla_tuple(s):
    body = s.strip()[2:-2]
    parts, cur, q = [], "", False
    for ch in body:
        if ch == '"':
            q = not q
            continue
        if ch == "," and not q:
            parts.append(cur.strip())
            cur = ""
        else:
            cur += ch
    parts.append(cur.strip())
    out = []
    for x in parts:
        try:
            out.append(int(x))
        except ValueError:
            out.append(x)
    return out


def validate_trace(trace_path, scratch, heap="3g", timeout=3600):
    """Validate one recorded trace file with Conform.tla. Returns dict(n, rejects, states, wall_s)."""
    meta = tempfile.mkdtemp(prefix="meta", dir=scratch)
    rc, out, wall = _java(
        ["-workers", "1", "-metadir", meta, "-noGenerateSpecTE", "-config", "Conform.cfg", "Conform.tla"],
        env={"TRACE_FILE": trace_path}, timeout=timeout, heap=heap)
    shutil.rmtree(meta, ignore_errors=True)
    done = _tuples(out, "DONE")
    rejects = _tuples(out, "REJECT")
    stats = parse_stats(out)
    if rc != 0 or not done or stats is None:
        lines = out.splitlines()
        k = next((i for i, ln in enumerate(lines) if ln.startswith("Error:")), max(0, len(lines) - 40))
        raise MachineryError("TLC failed on %s (rc=%s)\n%s" % (trace_path, rc, "\n".join(lines[k:k + 45])))
    n, rej = done[-1][1], done[-1][2]
    if rej != len(rejects):
        raise MachineryError("reject count mismatch on %s: DONE says %s, %s REJECT lines" % (trace_path, rej, len(rejects)))
    return {"n": n, "rejects": [{"l": r[1], "cid": r[2], "op": r[3], "clause": r[4]} for r in rejects],
            "states": stats["distinct"], "transitions": stats["generated"], "wall_s": wall}


def validate_traces(paths, scratch, jobs=16):
    with ThreadPoolExecutor(max_workers=jobs) as ex:
        return list(ex.map(lambda p: validate_trace(p, scratch), paths))


def model_check(module, cfg, scratch, workers=16, timeout=3600, heap="8g", extra=None, expect_violation=False,
                simulate=None, coverage=False):
    """Model-check an MC_* instance. Returns dict(states, transitions, ok, out, wall_s, gen=[...])."""
    meta = tempfile.mkdtemp(prefix="meta", dir=scratch)
    args = ["-workers", str(workers), "-metadir", meta, "-noGenerateSpecTE", "-config", cfg]
    if simulate:
        args += ["-simulate", simulate]
    if coverage:
        args += ["-coverage", "1"]
    args += (extra or []) + [module]
    rc, out, wall = _java(args, timeout=timeout, heap=heap, gcthreads=8)
    shutil.rmtree(meta, ignore_errors=True)
    stats = parse_stats(out)
    violated = ("is violated" in out) or ("Error: Action property" in out) or ("Error: Temporal properties were violated" in out)
    ok = (rc == 0) and not violated and "Error:" not in out
    if not ok and not violated:
        tail = "\n".join(out.splitlines()[-40:])
        raise MachineryError("TLC error on %s/%s (rc=%s)\n%s" % (module, cfg, rc, tail))
    if simulate is None and stats is None and not violated:
        raise MachineryError("no statistics from TLC for %s/%s" % (module, cfg))
    cov = {}
    if coverage:
        for mm in re.finditer(r"^<(\w+) line \d+, col \d+ to line \d+, col \d+ of module \w+(?: \(([\d ]+)\))?>: (\d+):(\d+)", out, re.M):
            key = mm.group(1) + ("@" + mm.group(2).replace(" ", ".") if mm.group(2) else "")
            cov[key] = max(cov.get(key, 0), int(mm.group(4)))
    return {"states": stats["distinct"] if stats else 0, "transitions": stats["generated"] if stats else 0,
            "ok": ok, "violated": violated, "out": out, "wall_s": wall, "coverage": cov}


def gen_lines(out, tag="GEN"):
    """Extract the JSON payloads of PrintT(<<"GEN", json-string>>) lines; tolerant of worker interleaving
    because each payload is a single-line JSON string literal."""
    res = []
    for m in re.finditer(r'<<"%s", "((?:[^"\\]|\\.)*)">>' % tag, out):
        res.append(json.loads(json.loads('"' + m.group(1) + '"')))
    # TLC's workers print in whatever order they reach the states: sort, so that anything sampled from the list with a
    # seeded generator is the same sample in every run
    res.sort(key=lambda x: json.dumps(x, sort_keys=True))
    return res
