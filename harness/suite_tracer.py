"""pytest plugin (loaded with `-p harness.suite_tracer`, PYTHONPATH=/verif) that records what the repository's OWN
tests do: every top-level TimePoint + Duration, TimePoint - TimePoint and TimePoint comparison, and every calendar-mode
switch, as events of the trace specification.  Wrappers are installed from outside (class attributes), only when
ISODATETIME_VERIF=1, and nested calls (an addition performed inside a subtraction ...) are skipped by a depth counter,
so one event = one public call made by a test."""
import json
import os

if os.environ.get("ISODATETIME_VERIF") == "1" and os.environ.get("ISODATETIME_VERIF_TRACE"):
    import sys
    sys.path.insert(0, os.environ.get("VERIF_REPO", "/repo"))
    from harness.common import (BIG, Calendar, Duration, TimePoint, proj_dur, proj_tp)

    EVENTS = []
    STATE = {"depth": 0, "dropped": 0}
    KINDS = set(os.environ.get("ISODATETIME_VERIF_KINDS", "Add,SubTP,Cmp1").split(","))

    def _ok(obj):
        if isinstance(obj, bool) or isinstance(obj, str):
            return True
        if isinstance(obj, int):
            return abs(obj) < BIG
        if isinstance(obj, list):
            return all(_ok(x) for x in obj)
        if isinstance(obj, dict):
            return all(_ok(x) for x in obj.values())
        return False

    def emit(ev):
        if _ok(ev):
            EVENTS.append(ev)
        else:
            STATE["dropped"] += 1

    def full(p):
        return isinstance(p, TimePoint) and not p._truncated and p._year is not None and (
            p._month_of_year is not None or p._day_of_year is not None or p._week_of_year is not None)

    _add, _sub, _cmp, _set_mode = TimePoint.__add__, TimePoint.__sub__, TimePoint._cmp, Calendar.set_mode

    def add(self, other):
        STATE["depth"] += 1
        try:
            res = _add(self, other)
        finally:
            STATE["depth"] -= 1
        if STATE["depth"] == 0 and "Add" in KINDS and type(other) is Duration and full(self) and full(res):
            emit({"op": "Add", "cid": 0, "how": "add", "p": proj_tp(self), "d": proj_dur(other), "q": proj_tp(res), "ok": True, "cls": ""})
        return res

    def sub(self, other):
        STATE["depth"] += 1
        try:
            res = _sub(self, other)
        finally:
            STATE["depth"] -= 1
        if STATE["depth"] == 0:
            if "SubTP" in KINDS and full(self) and full(other) and isinstance(res, Duration):
                emit({"op": "SubTP", "cid": 0, "a": proj_tp(self), "b": proj_tp(other), "d": proj_dur(res), "ok": True, "cls": ""})
            elif "Add" in KINDS and type(other) is Duration and full(self) and full(res):
                emit({"op": "Add", "cid": 0, "how": "sub", "p": proj_tp(self), "d": proj_dur(other * -1), "q": proj_tp(res), "ok": True, "cls": ""})
        return res

    def cmp(self, other, op):
        STATE["depth"] += 1
        try:
            res = _cmp(self, other, op)
        finally:
            STATE["depth"] -= 1
        if STATE["depth"] == 0 and "Cmp1" in KINDS and full(self) and full(other) and isinstance(res, bool):
            emit({"op": "Cmp1", "cid": 0, "a": proj_tp(self), "b": proj_tp(other), "rel": op, "res": res})
        return res

    def set_mode(self, mode=None):
        res = _set_mode(self, mode)
        EVENTS.append({"op": "SetMode", "cid": 0, "sp": str(mode) if mode else "gregorian"})
        return res

    _dadd, _dmul, _deq = Duration.__add__, Duration.__mul__, Duration.__eq__

    def dadd(self, other):
        STATE["depth"] += 1
        try:
            res = _dadd(self, other)
        finally:
            STATE["depth"] -= 1
        if STATE["depth"] == 0 and "DurOp1" in KINDS and type(self) is Duration and type(other) is Duration and type(res) is Duration:
            emit({"op": "DurOp1", "cid": 0, "k": "add", "a": proj_dur(self), "b": proj_dur(other), "n": 0, "r": proj_dur(res), "res": False})
        return res

    def dmul(self, other):
        STATE["depth"] += 1
        try:
            res = _dmul(self, other)
        finally:
            STATE["depth"] -= 1
        if STATE["depth"] == 0 and "DurOp1" in KINDS and type(self) is Duration and isinstance(other, int) and type(res) is Duration \
                and abs(other) < 1000:
            emit({"op": "DurOp1", "cid": 0, "k": "mul", "a": proj_dur(self), "b": proj_dur(self), "n": other, "r": proj_dur(res), "res": False})
        return res

    def deq(self, other):
        res = _deq(self, other)
        if STATE["depth"] == 0 and "DurOp1" in KINDS and type(self) is Duration and type(other) is Duration and isinstance(res, bool):
            emit({"op": "DurOp1", "cid": 0, "k": "eq", "a": proj_dur(self), "b": proj_dur(other), "n": 0, "r": proj_dur(self), "res": res})
        return res

    Duration.__add__, Duration.__mul__, Duration.__rmul__, Duration.__eq__ = dadd, dmul, dmul, deq
    TimePoint.__add__, TimePoint.__sub__, TimePoint._cmp, Calendar.set_mode = add, sub, cmp, set_mode
    # Duration.__add__(TimePoint) delegates to TimePoint.__add__: covered.

    def pytest_sessionfinish(session, exitstatus):
        with open(os.environ["ISODATETIME_VERIF_TRACE"], "w") as f:
            json.dump({"events": EVENTS, "dropped": STATE["dropped"], "exitstatus": int(exitstatus)}, f)
