import json,glob,collections,sys
prop=sys.argv[1]
c=collections.Counter(); ex={}
def feats(case):
    s=json.dumps(case)
    f=[]
    if '"hh": 24' in s: f.append("24h")
    if '"dec"' in s or '.' in s: f.append("frac")
    return ",".join(f)
for f in glob.glob('/verif/replays/%s/*.json'%prop):
    r=json.load(open(f))
    k=(r.get('op'),r.get('clause'),feats(r.get('case')))
    c[k]+=1; ex.setdefault(k,(f,r.get('case')))
for k,v in c.most_common(): print(v,k,ex[k][0],json.dumps(ex[k][1])[:700])
