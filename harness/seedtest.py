"""Confirm a seeded change (patch.diff + demo.py) and run a property's check against it.
usage: seedtest.py <seed dir> [--tier quick] [--props C01,C15]
Steps (all in a scratch worktree of /repo HEAD outside /repo and /verif, removed afterwards):
  pristine demo passes; patch applies; repository tests pass with the patch; demo fails with the patch;
  the check(s), pointed at the patched worktree through VERIF_REPO, must print VIOLATION (exit 1)."""
import json
import os
import subprocess
import sys
import tempfile

PYTEST = ["/venv/bin/python", "-m", "pytest", "-q", "-p", "no:cacheprovider", "--timeout=900",
          "--deselect", "metomi/isodatetime/tests/test_main.py::test_pipe"]


def sh(cmd, cwd=None, env=None):
    e = dict(os.environ)
    e.update(env or {})
    p = subprocess.run(cmd, cwd=cwd, env=e, capture_output=True, text=True)
    return p.returncode, p.stdout + p.stderr


def main():
    sd = os.path.abspath(sys.argv[1])
    tier = "quick"
    props = None
    skip_tests = "--skip-tests" in sys.argv
    for i, a in enumerate(sys.argv):
        if a == "--tier":
            tier = sys.argv[i + 1]
        if a == "--props":
            props = sys.argv[i + 1].split(",")
    meta = json.load(open(os.path.join(sd, "meta.json")))
    props = props or [meta["property"]]
    wt = tempfile.mkdtemp(prefix="isodt_seed_")
    os.rmdir(wt)
    res = {"seed": os.path.basename(sd), "property": meta["property"]}
    try:
        rc, out = sh(["git", "-C", "/repo", "worktree", "add", "-q", "--detach", wt, "HEAD"])
        assert rc == 0, out
        demo = os.path.join(sd, "demo.py")
        rc, out = sh(["/venv/bin/python", demo], cwd=wt)
        res["demo_pristine"] = rc
        rc, out = sh(["git", "apply", os.path.join(sd, "patch.diff")], cwd=wt)
        if rc != 0:     # the seed was written against the pinned commit; later fix: commits may touch neighbouring lines
            rc, out = sh(["git", "apply", "-C1", "--recount", os.path.join(sd, "patch.diff")], cwd=wt)
            res["applied_with_reduced_context"] = True
        res["applies"] = rc == 0
        if rc != 0:
            res["apply_error"] = out[-300:]
            return res
        if not skip_tests:
            rc, out = sh(PYTEST, cwd=wt)
            res["tests"] = [ln for ln in out.splitlines() if " passed" in ln or " failed" in ln][-1:]
            res["tests_pass"] = rc == 0
        rc, out = sh(["/venv/bin/python", demo], cwd=wt)
        res["demo_patched"] = rc
        res["checks"] = {}
        for p in props:
            rc, out = sh(["/verif/check", p, "--tier", tier], cwd="/verif", env={"VERIF_REPO": wt, "VERIF_NO_EVIDENCE": "1", "VERIF_REPLAY_DIR": os.path.join(wt, ".verif_replays")})
            lines = [ln for ln in out.splitlines() if ln.startswith("VIOLATION") or "MACHINERY" in ln]
            res["checks"][p] = {"exit": rc, "violations": len([ln for ln in lines if ln.startswith("VIOLATION")]),
                                "first": next((ln for ln in out.splitlines() if ln.startswith("  ")), "")[:300],
                                "machinery": [ln for ln in lines if "MACHINERY" in ln][:1]}
        return res
    finally:
        sh(["git", "-C", "/repo", "worktree", "remove", "--force", wt])
        print(json.dumps(res))


if __name__ == "__main__":
    main()
