"""Harness-side reference calendar, used ONLY to generate inputs (which day follows which, which
week date names a day).  It is not an oracle: every row the drivers log is re-derived and judged by
Cal.tla in TLC, including the inputs this module produced ("row-inputs-*" clauses)."""
ML = {"gregorian": ((31, 28, 31, 30, 31, 30, 31, 31, 30, 31, 30, 31), (31, 29, 31, 30, 31, 30, 31, 31, 30, 31, 30, 31)),
      "360day": ((30,) * 12,) * 2,
      "365day": ((31, 28, 31, 30, 31, 30, 31, 31, 30, 31, 30, 31),) * 2,
      "366day": ((31, 29, 31, 30, 31, 30, 31, 31, 30, 31, 30, 31),) * 2}


def leap(y):
    return y % 4 == 0 and (y % 100 != 0 or y % 400 == 0)


def mlens(mode, y):
    return ML[mode][1 if leap(y) else 0]


def dim(mode, y, m):
    return mlens(mode, y)[m - 1]


def diy(mode, y):
    return sum(mlens(mode, y))


def year_start(mode, y):
    if mode == "gregorian":
        def f(yy):
            yy -= 1
            return yy * 365 + yy // 4 - yy // 100 + yy // 400
        return f(y) - f(2000)
    return (y - 2000) * diy(mode, 2001)


def daynum(mode, y, m, d):
    return year_start(mode, y) + sum(mlens(mode, y)[:m - 1]) + d - 1


def from_daynum(mode, n):
    y = 2000 + n // diy(mode, 2001)
    while year_start(mode, y) > n:
        y -= 1
    while year_start(mode, y + 1) <= n:
        y += 1
    r = n - year_start(mode, y)
    m = 1
    while r >= dim(mode, y, m):
        r -= dim(mode, y, m)
        m += 1
    return y, m, r + 1


def ord_of(mode, n):
    y, _, _ = from_daynum(mode, n)
    return y, n - year_start(mode, y) + 1


def weekday(n):
    return (n - 2) % 7 + 1


def week_year_start(mode, y):
    j4 = daynum(mode, y, 1, 4)
    return j4 - (weekday(j4) - 1)


def to_week(mode, n):
    y, _, _ = from_daynum(mode, n)
    for wy in (y + 1, y, y - 1):
        s = week_year_start(mode, wy)
        if s <= n:
            return wy, (n - s) // 7 + 1, (n - s) % 7 + 1


def from_week(mode, wy, w, d):
    return week_year_start(mode, wy) + (w - 1) * 7 + d - 1


def weeks_in_year(mode, y):
    return (week_year_start(mode, y + 1) - week_year_start(mode, y)) // 7


def date_of(mode, rep, n):
    if rep == "cal":
        return from_daynum(mode, n)
    if rep == "ord":
        y, doy = ord_of(mode, n)
        return y, doy, 0
    return to_week(mode, n)
