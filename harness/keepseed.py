"""Keep a confirmed seeded change under /verif/seeded/<id>/ (patch.diff, demo.py, meta.json).
usage: keepseed.py <round> <seed dir> [<first-run result file>] [--props C03,C17]
Runs harness/seedtest.py in full (pristine demo, patch applies, repository tests pass, demo fails with the patch, the
property's check reports a violation) in a scratch worktree and records the outcome in meta.json."""
import json
import os
import shutil
import subprocess
import sys

ROOT = os.path.dirname(os.path.dirname(os.path.abspath(__file__)))


def main():
    rnd, sd = int(sys.argv[1]), os.path.abspath(sys.argv[2])
    first = None
    extra = []
    for i, a in enumerate(sys.argv[3:]):
        if a == "--props":
            extra = ["--props", sys.argv[3:][i + 1]]
    if len(sys.argv) > 3 and os.path.exists(sys.argv[3]):
        try:
            first = json.loads(open(sys.argv[3]).read().strip().splitlines()[-1])
        except Exception:  # noqa: BLE001
            first = None
    out = subprocess.run(["/venv/bin/python", os.path.join(ROOT, "harness/seedtest.py"), sd] + extra, capture_output=True, text=True, cwd=ROOT)
    res = json.loads(out.stdout.strip().splitlines()[-1])
    name = os.path.basename(sd)
    ok = res.get("demo_pristine") == 0 and res.get("applies") and res.get("tests_pass") and res.get("demo_patched") not in (0, None)
    if not ok:
        print(name, "NOT CONFIRMED", json.dumps(res)[:400])
        return 1
    meta = json.load(open(os.path.join(sd, "meta.json")))
    head = subprocess.run(["git", "-C", "/repo", "rev-parse", "--short", "HEAD"], capture_output=True, text=True).stdout.strip()
    prop = meta["property"]
    caught_first = None
    if first is not None:
        caught_first = first.get("checks", {}).get(prop, {}).get("exit") == 1
    meta.update({
        "round": rnd, "breaks_property": prop, "needs_to_manifest": meta.get("needs", ""),
        "patch_applies_to": "/repo HEAD at confirmation time (%s)" % head,
        "confirmation": {"ran": "harness/seedtest.py in a scratch worktree of /repo HEAD (removed afterwards)",
                         "demo_on_pristine_exit": res["demo_pristine"], "repository_tests_with_patch": (res.get("tests") or [""])[-1].strip("= "),
                         "demo_on_patched_exit": res["demo_patched"]},
        "check_result": {p: {"quick_exit": c["exit"], "violation_lines": c["violations"], "first_rejection": c["first"][:260]}
                         for p, c in res["checks"].items()},
        "caught_on_first_run": caught_first if caught_first is not None else all(c["exit"] == 1 for c in res["checks"].values()),
    })
    dst = os.path.join(ROOT, "seeded", name)
    os.makedirs(dst, exist_ok=True)
    for f in ("patch.diff", "demo.py"):
        shutil.copy(os.path.join(sd, f), os.path.join(dst, f))
    json.dump(meta, open(os.path.join(dst, "meta.json"), "w"), indent=1)
    caught = any(c["exit"] == 1 for c in res["checks"].values())
    print(name, "kept;", "caught" if caught else "NOT CAUGHT", {p: (c["exit"], c["violations"]) for p, c in res["checks"].items()}, "first run caught:", caught_first)
    return 0


if __name__ == "__main__":
    sys.exit(main())
