"""C12: iteration of recurrences, step by step, plus the three notations of one exact finite series.
Case: {"mode", "rec": recurrence description} | {"mode", "kind": "notations", "a": start, "d": exact interval, "n": n}"""
import random

from harness import gen
from harness.common import DAY, MEANING, TimeRecurrence, mk_dur, mk_tp, outcome, proj_tp, set_mode
from harness.drivers import recur

PROP = "C12"


def run_case(case, rec, cid):
    set_mode(case["mode"])
    rec.begin(cid)
    if case.get("kind") == "notations":
        a, d, n = mk_tp(case["a"]), mk_dur(case["d"]), case["n"]

        def f():
            pts = [a]
            for _ in range(n - 1):
                pts.append(pts[-1] + d)
            r1 = TimeRecurrence(repetitions=n, start_point=a, end_point=pts[1])
            r3 = TimeRecurrence(repetitions=n, start_point=a, duration=d)
            r4 = TimeRecurrence(repetitions=n, duration=d, end_point=pts[-1])
            ids = {}
            h = [ids.setdefault(hash(r), len(ids)) for r in (r1, r3, r4)]
            return dict(eq13=bool(r1 == r3), eq34=bool(r3 == r4), eq14=bool(r1 == r4), h1=h[0], h3=h[1], h4=h[2],
                        p1=[proj_tp(p) for p in r1], p3=[proj_tp(p) for p in r3], p4=[proj_tp(p) for p in r4])
        st, v = outcome(f)
        if st == "ok":
            rec.ev("Notations", cid, ok=True, cls="", **v)
        else:
            rec.ev("Notations", cid, ok=False, cls=type(v).__name__, eq13=False, eq34=False, eq14=False, h1=0, h3=0, h4=0,
                   p1=[], p3=[], p4=[])
        return True
    desc = case["rec"]
    r = recur.build(desc)
    recur.iterate(rec, cid, desc, r)
    return True


def classify(case, rej, events):
    if "rec" not in case:
        return None
    tag = recur.known_class(case["rec"])
    bare = rej["clause"][6:] if rej["clause"].startswith("known:") else rej["clause"]
    if tag == "bounded-duration/end-recurrence-with-month/year-interval":
        # the specification marks a rejection "known:" only when the yielded points are exactly what the recorded algorithm
        # (start = end - (n-1) * interval, then forward) produces
        if rej["clause"].startswith("known:"):
            return tag if bare in ("count-not-n", "end-anchor-not-included", "more-than-n-points") else None
        # ... unless the anchor is in a decimal form as well: then float accumulation (the other recorded finding) can bend the
        # series away from the exact prediction
        if case["rec"]["n"] >= 2 and recur.float_class(case["rec"]):
            tag = "bounded-recurrence-from-decimal-form-anchor-with-finer-interval"
        else:
            return None
    # each recorded finding manifests through particular clauses only: the end-anchored month/year series is a correct chain of
    # additions that merely starts in the wrong place (wrong count / end not reached); float accumulation can also bend a step
    clauses = {"bounded-duration/end-recurrence-with-month/year-interval": ("count-not-n", "end-anchor-not-included", "more-than-n-points"),
               "bounded-recurrence-from-decimal-form-anchor-with-finer-interval":
                   ("count-not-n", "end-anchor-not-included", "consecutive-points-not-one-interval-apart", "more-than-n-points",
                    "next-not-previous-plus-interval")}
    return tag if tag and bare in clauses[tag] else None


XMODE = [
    {"fmt": 3, "n": 3, "a": ("cal", 2020, 2, 28), "d": {"d": 1}}, {"fmt": 4, "n": 3, "a": ("cal", 2020, 3, 1), "d": {"d": 1}},
    {"fmt": 1, "n": 3, "a": ("cal", 2020, 2, 28), "s": ("cal", 2020, 2, 29)}, {"fmt": 3, "n": 4, "a": ("cal", 2019, 12, 30), "d": {"d": 1}},
    {"fmt": 3, "n": 5, "a": ("ord", 2020, 364, 0), "d": {"d": 1}}, {"fmt": 3, "n": 3, "a": ("cal", 2019, 12, 31), "d": {"mo": 2}},
    {"fmt": 3, "n": 0, "a": ("cal", 2020, 2, 27), "d": {"d": 1}}, {"fmt": 4, "n": 0, "a": ("cal", 2020, 3, 2), "d": {"d": 1}},
    {"fmt": 3, "n": 3, "a": ("cal", 2100, 2, 28), "d": {"h": 12}}, {"fmt": 3, "n": 2, "a": ("cal", 2020, 1, 30), "d": {"mo": 1}},
]


def expand(job):
    rnd = random.Random(job["seed"])
    if job.get("kind") == "gen":        # the recurrence universe of MC_C12.tla (anchors at month ends / leap day / week 53 ...), emitted by TLC
        from harness.common import tp_rec
        for mm, fmt, n, rep, y, a, b, dy, dmo, dd, dh in job["tuples"]:
            anchor = tp_rec(rep, y, a, b, sod=82800, zh=1, zm=0)
            d = {"fmt": fmt, "n": n, "a": anchor}
            if fmt == 1:
                from harness.drivers.recur import _same_zone_shift
                d["s"] = _same_zone_shift(mm, anchor, 86400 + 3600)
            else:
                d["d"] = {k_: v for k_, v in (("y", dy), ("mo", dmo), ("d", dd), ("h", dh)) if v} or {"s": 0}
            yield {"mode": mm, "rec": d}
        return
    if job.get("kind") == "xmode":       # the same recurrence TEXTS under every mode in turn, through one parser object
        from harness.common import SPELLINGS, tp_rec
        for _round in range(job["rounds"]):
            for x in XMODE:
                for sp in rnd.sample(SPELLINGS, len(SPELLINGS)):
                    d = {"fmt": x["fmt"], "n": x["n"], "a": tp_rec(x["a"][0], x["a"][1], x["a"][2], x["a"][3]), "via": "parse"}
                    if "s" in x:
                        d["s"] = tp_rec(x["s"][0], x["s"][1], x["s"][2], x["s"][3])
                    else:
                        d["d"] = dict(x["d"])
                    m = MEANING[sp]
                    from harness import refcal as R
                    ok = all((p_[0] != "cal" or p_[3] <= R.dim(m, p_[1], p_[2])) and (p_[0] != "ord" or p_[2] <= R.diy(m, p_[1]))
                             for p_ in [x["a"]] + ([x["s"]] if "s" in x else []))
                    if ok:
                        yield {"mode": sp, "rec": d}
        return
    for _ in range(job["n"]):
        sp = gen.spelling(rnd)
        m = MEANING[sp]
        if rnd.random() < 0.08:
            # series whose derived other end (and members) land EXACTLY on the first day of a year or month, one or more
            # years away: intervals that divide 365 / 366 / 730 days, anchors on 1 January / 1 March / 31 December
            from harness import refcal as R
            from harness.common import tp_rec
            y = rnd.choice([2019, 2020, 2021, 2022, 2000, 2001, 1900, 1901, 2004, 2005])
            n0 = rnd.choice([R.year_start(m, y), R.year_start(m, y), R.daynum(m, y, 3, 1), R.year_start(m, y) - 1])
            rep = rnd.choice(["cal", "cal", "ord", "week"])
            yy, a_, b_ = R.date_of(m, rep, n0)
            iv = rnd.choice([73, 365, 366, 183, 122, 61, 146, 360, 180, 90, 72])
            n = rnd.choice([2, 3, 365 // iv + 1, 366 // iv + 1, 730 // iv + 1, 360 // iv + 1])
            if 2 <= n <= 13:
                yield {"mode": sp, "rec": {"fmt": rnd.choice([3, 4, 4]), "n": n, "a": tp_rec(rep, yy, a_, b_, sod=rnd.choice([0, 0, 21600]),
                                                                                             zh=rnd.choice([0, 1]), zm=0), "d": {"d": iv}}}
                continue
        if rnd.random() < 0.03:
            from harness import refcal as R
            from harness.common import tp_rec
            y0 = rnd.choice([0, 0, -1, 1, -4])
            n0 = R.year_start(m, y0 + 1) - rnd.choice([1, 1, 2, 30, 366])
            rep = rnd.choice(["cal", "ord", "week"])
            pts = []
            for dn in (n0, n0 + rnd.choice([1, 2, 31, 367, 800])):
                yy, a_, b_ = R.date_of(m, rep, dn)
                pts.append(tp_rec(rep, yy, a_, b_, sod=rnd.choice([0, 21600]), zh=0, zm=0, xd=2))
            yield {"mode": sp, "rec": {"fmt": 1, "n": rnd.choice([2, 3, 4, 0]), "a": pts[0], "s": pts[1]}}
            continue
        if rnd.random() < 0.12:
            a = gen.rand_point(rnd, m, wide=False, whole=True, allow24=False, zones=[(0, 0), (1, 0), (-3, -30)])
            a = dict(a, prec="hms", mi=max(a["mi"], 0), ss=max(a["ss"], 0))
            yield {"mode": sp, "kind": "notations", "a": a, "d": dict(rnd.choice(recur.EXACT_IV)), "n": rnd.randint(2, 6)}
        else:
            d = recur.rand_recurrence(rnd, m, whole_anchor=rnd.random() < 0.9, maxn=rnd.choice([6, 9, 13]), allow24=True,
                                      years=[1999, 2000, 2004, 2019, 2020] if rnd.random() < 0.3 else None, whole_anchor_only=False)
            if d["a"]["hh"] == 24 and not (d["fmt"] == 1 or recur.is_exact(d["d"])):
                # 24:00 + month/year arithmetic has no single reading (DESIGN 6.3): such anchors only with exact intervals
                d["a"] = dict(d["a"], hh=0, mi=0 if d["a"]["prec"] != "h" else -1, ss=0 if d["a"]["prec"] == "hms" else -1)
            if d["fmt"] != 1 and rnd.random() < 0.12:
                d["dvia"] = "arith"       # the interval is the result of Duration arithmetic on operands used before
            if rnd.random() < 0.08:
                d["pre"] = "overlap"      # earlier, overlapping passes over the same object
            if rnd.random() < 0.35 and recur.parseable(d):
                d["via"] = "parse"
                if rnd.random() < 0.5 and d["fmt"] != 1 and d["a"]["rep"] == "cal":      # few distinct texts: the same expression recurs under several modes
                    d["a"] = dict(d["a"], y=2020, a=2, b=28)
            yield {"mode": sp, "rec": d}


def gen_tuples():
    import shutil
    import tempfile
    from harness import tlc
    scratch = tempfile.mkdtemp(prefix="isodt_gen_")
    try:
        r = tlc.model_check("MC_C12.tla", "Gen_C12.cfg", scratch, workers=4)
        tuples = tlc.gen_lines(r["out"])
    finally:
        shutil.rmtree(scratch, ignore_errors=True)
    if len(tuples) < 5000:
        raise tlc.MachineryError("TLC generated only %d recurrences" % len(tuples))
    return tuples


def jobs(tier, seed):
    tuples = gen_tuples()
    step = len(tuples) // 4 + 1
    return [{"kind": "gen", "tuples": tuples[i * step:(i + 1) * step], "seed": seed} for i in range(4)] + jobs_rest(tier, seed)


def jobs_rest(tier, seed):
    if tier == "quick":
        return [{"n": 300, "seed": seed * 100 + j} for j in range(11)] + [{"kind": "xmode", "rounds": 2, "seed": seed}]
    return [{"n": 4000, "seed": seed * 1000 + j} for j in range(30)] + [{"kind": "xmode", "rounds": 6, "seed": seed + j} for j in range(2)]
