"""C12: iteration of recurrences, step by step, plus the three notations of one exact finite series.
Case: {"mode", "rec": recurrence description} | {"mode", "kind": "notations", "a": start, "d": exact interval, "n": n}"""
import random

from harness import gen
from harness.common import DAY, MEANING, TimeRecurrence, mk_dur, mk_tp, outcome, proj_tp, set_mode
from harness.drivers import recur

PROP = "C12"


def run_case(case, rec, cid):
    set_mode(case["mode"])
    rec.begin(cid)
    if case.get("kind") == "notations":
        a, d, n = mk_tp(case["a"]), mk_dur(case["d"]), case["n"]

        def f():
            pts = [a]
            for _ in range(n - 1):
                pts.append(pts[-1] + d)
            r1 = TimeRecurrence(repetitions=n, start_point=a, end_point=pts[1])
            r3 = TimeRecurrence(repetitions=n, start_point=a, duration=d)
            r4 = TimeRecurrence(repetitions=n, duration=d, end_point=pts[-1])
            ids = {}
            h = [ids.setdefault(hash(r), len(ids)) for r in (r1, r3, r4)]
            return dict(eq13=bool(r1 == r3), eq34=bool(r3 == r4), eq14=bool(r1 == r4), h1=h[0], h3=h[1], h4=h[2],
                        p1=[proj_tp(p) for p in r1], p3=[proj_tp(p) for p in r3], p4=[proj_tp(p) for p in r4])
        st, v = outcome(f)
        if st == "ok":
            rec.ev("Notations", cid, ok=True, cls="", **v)
        else:
            rec.ev("Notations", cid, ok=False, cls=type(v).__name__, eq13=False, eq34=False, eq14=False, h1=0, h3=0, h4=0,
                   p1=[], p3=[], p4=[])
        return True
    desc = case["rec"]
    r = recur.build(desc)
    recur.iterate(rec, cid, desc, r)
    return True


def classify(case, rej, events):
    if "rec" in case and rej["clause"] in ("count-not-n", "end-anchor-not-included", "consecutive-points-not-one-interval-apart",
                                           "more-than-n-points", "next-not-previous-plus-interval"):
        return recur.known_class(case["rec"])
    return None


def expand(job):
    rnd = random.Random(job["seed"])
    for _ in range(job["n"]):
        sp = gen.spelling(rnd)
        m = MEANING[sp]
        if rnd.random() < 0.12:
            a = gen.rand_point(rnd, m, wide=False, whole=True, allow24=False, zones=[(0, 0), (1, 0), (-3, -30)])
            a = dict(a, prec="hms", mi=max(a["mi"], 0), ss=max(a["ss"], 0))
            yield {"mode": sp, "kind": "notations", "a": a, "d": dict(rnd.choice(recur.EXACT_IV)), "n": rnd.randint(2, 6)}
        else:
            d = recur.rand_recurrence(rnd, m, whole_anchor=rnd.random() < 0.9, maxn=rnd.choice([6, 9, 13]),
                                      years=[1999, 2000, 2004, 2019, 2020] if rnd.random() < 0.3 else None)
            if rnd.random() < 0.35 and recur.parseable(d):
                d["via"] = "parse"
                if rnd.random() < 0.5 and d["fmt"] != 1 and d["a"]["rep"] == "cal":      # few distinct texts: the same expression recurs under several modes
                    d["a"] = dict(d["a"], y=2020, a=2, b=28)
            yield {"mode": sp, "rec": d}


def jobs(tier, seed):
    if tier == "quick":
        return [{"n": 300, "seed": seed * 100 + j} for j in range(16)]
    return [{"n": 4000, "seed": seed * 1000 + j} for j in range(32)]
