"""C10: durations and text.
Cases: {"kind": "text", "gd": generation record}           designator text -> parse -> str -> parse
       {"kind": "obj", "d": duration description}           Duration object -> str -> parse
       {"kind": "alt", "y","mo","d","h","mi","s", "basic": bool, "ord": bool}   alternative spelling vs designators"""
import random

from harness import render
from harness.common import mk_dur, outcome, proj_dur
from metomi.isodatetime.parsers import DurationParser

PROP = "C10"
_DP = DurationParser()


def dur_text(gd):
    s = "-" if gd["neg"] else ""
    s += "P"
    if gd["wk"]:
        return s + "%dW" % gd["w"]
    last = "s" if gd["s"] >= 0 else "mi" if gd["mi"] >= 0 else "h" if gd["h"] >= 0 else "none"

    def unit(n, ch, u=None):
        if n < 0:
            return ""
        dec = ""
        if u is not None and u == last and gd["ds"]:
            dec = chr(gd["sep"]) + "".join(str(x) for x in gd["ds"])
        return "%d%s%s" % (n, dec, ch)
    s += unit(gd["y"], "Y") + unit(gd["mo"], "M") + unit(gd["d"], "D")
    if not (gd["h"] < 0 and gd["mi"] < 0 and gd["s"] < 0):
        s += "T" + unit(gd["h"], "H", "h") + unit(gd["mi"], "M", "mi") + unit(gd["s"], "S", "s")
    return s


def run_case(case, rec, cid):
    rec.begin(cid)
    k = case["kind"]
    if k == "text":
        gd = case["gd"]
        text = dur_text(gd)

        def f():
            q = _DP.parse(text)
            t2 = str(q)
            q2 = _DP.parse(t2)
            return dict(q=proj_dur(q), text2=render.codes(t2), eq2=bool(q2 == q), text3=render.codes(str(q2)))
        st, v = outcome(f)
        if st == "ok":
            rec.ev("DurParse", cid, gd=gd, text=render.codes(text), ok=True, cls="", **v)
        else:
            rec.ev("DurParse", cid, gd=gd, text=render.codes(text), ok=False, cls=type(v).__name__, q=proj_dur(None), text2=[], eq2=False, text3=[])
        return True
    if k == "obj":
        if "sum" in case:
            d = mk_dur(case["sum"][0])
            for part in case["sum"][1:]:
                d = d + mk_dur(part)
            d = d * case.get("times", 1)
        elif case.get("big"):
            # one whole-number component only, the others left at the constructor's defaults (beyond 2**53 the library's own
            # == is float arithmetic, so an explicit int 0 next to a default 0.0 would already compare unequal)
            from harness.common import Duration as _D
            d = _D(**{{"y": "years", "mo": "months", "d": "days", "w": "weeks"}[k_]: v_ for k_, v_ in case["d"].items()})
        else:
            d = mk_dur(case["d"])

        def g():
            s = str(d)
            q = _DP.parse(s)
            return dict(text=render.codes(s), q=proj_dur(q), eq=bool(q == d), text2=render.codes(str(q)))
        st, v = outcome(g)
        if st == "ok":
            rec.ev("DurObj", cid, d=proj_dur(d), ok=True, cls="", **v)
        else:
            rec.ev("DurObj", cid, d=proj_dur(d), ok=False, cls=type(v).__name__, text=[], q=proj_dur(None), eq=False, text2=[])
        return True
    if k == "alt":
        c = case
        if c.get("reduced"):      # year-month and year-only precision of the date-time-like spelling (no time part)
            if c["reduced"] == "ym":
                alt, desg = "P%04d-%02d" % (c["y"], c["mo"]), "P%dY%dM" % (c["y"], c["mo"])
            else:
                alt, desg = "P%04d" % c["y"], "P%dY" % c["y"]

            def h0():
                qa, qd = _DP.parse(alt), _DP.parse(desg)
                return dict(qa=proj_dur(qa), qd=proj_dur(qd), eq=bool(qa == qd) and hash(qa) == hash(qd) and not bool(qa < qd))
            st, v = outcome(h0)
            if st == "ok":
                rec.ev("DurAlt", cid, alt=render.codes(alt), desg=render.codes(desg), ok=True, cls="", **v)
            else:
                rec.ev("DurAlt", cid, alt=render.codes(alt), desg=render.codes(desg), ok=False, cls=type(v).__name__, qa=proj_dur(None),
                       qd=proj_dur(None), eq=False)
            return True
        if c["ord"]:
            date = ("%04d%03d" if c["basic"] else "%04d-%03d") % (c["y"], c["d"])
            desg = "P%dY%dD" % (c["y"], c["d"])
        else:
            date = ("%04d%02d%02d" if c["basic"] else "%04d-%02d-%02d") % (c["y"], c["mo"], c["d"])
            desg = "P%dY%dM%dD" % (c["y"], c["mo"], c["d"])
        dec = c.get("dec")          # decimal digits on the last time unit present ("hms" | "hm" | "h")
        form = c.get("tform", "hms")
        dtxt = ((c.get("dsep") or ",") + dec) if dec else ""
        if form == "hms":
            tm = ("%02d%02d%02d" if c["basic"] else "%02d:%02d:%02d") % (c["h"], c["mi"], c["s"]) + dtxt
            desg += "T%dH%dM%d%sS" % (c["h"], c["mi"], c["s"], dtxt)
        elif form == "hm":
            tm = ("%02d%02d" if c["basic"] else "%02d:%02d") % (c["h"], c["mi"]) + dtxt
            desg += "T%dH%d%sM" % (c["h"], c["mi"], dtxt)
        else:
            tm = "%02d" % c["h"] + dtxt
            desg += "T%d%sH" % (c["h"], dtxt)
        alt = "P" + date + "T" + tm

        def h():
            qa, qd = _DP.parse(alt), _DP.parse(desg)
            return dict(qa=proj_dur(qa), qd=proj_dur(qd), eq=bool(qa == qd))
        st, v = outcome(h)
        if st == "ok":
            rec.ev("DurAlt", cid, alt=render.codes(alt), desg=render.codes(desg), ok=True, cls="", **v)
        else:
            rec.ev("DurAlt", cid, alt=render.codes(alt), desg=render.codes(desg), ok=False, cls=type(v).__name__, qa=proj_dur(None),
                   qd=proj_dur(None), eq=False)
        return True
    raise ValueError(k)


def expand(job):
    rnd = random.Random(job["seed"])
    for _ in range(job["n"]):
        x = rnd.random()
        if x < 0.5:
            if rnd.random() < 0.12:
                gd = {"neg": rnd.random() < 0.3, "wk": True, "w": rnd.choice([0, 1, 2, 52, 53, rnd.randint(0, 5000)]),
                      "y": -1, "mo": -1, "d": -1, "h": -1, "mi": -1, "s": -1, "ds": [], "sep": 44}
            else:
                gd = {"neg": rnd.random() < 0.3, "wk": False, "w": 0, "ds": [], "sep": rnd.choice([44, 46])}
                for k_, hi in (("y", 3000), ("mo", 40), ("d", 800), ("h", 100), ("mi", 3000), ("s", 100000)):
                    gd[k_] = rnd.choice([-1, -1, 0, 1, rnd.randint(0, hi)])
                if all(gd[k_] < 0 for k_ in ("y", "mo", "d", "h", "mi", "s")):
                    gd["d"] = rnd.randint(0, 9)
                if any(gd[k_] >= 0 for k_ in ("h", "mi", "s")) and rnd.random() < 0.4:
                    kk = rnd.choice([1, 1, 2, 3, 6, 7, 9])
                    gd["ds"] = rnd.choice([[rnd.randint(0, 9) for _ in range(kk)], [5], [2, 5], [9] * kk, [0] * (kk - 1) + [1]])
            yield {"kind": "text", "gd": gd}
        elif x < 0.85:
            # single-signed Duration objects: each unit absent / zero / present, integer and decimal, weeks
            if rnd.random() < 0.12:
                yield {"kind": "obj", "d": {"w": rnd.choice([1, -1, 2, -52, rnd.randint(-500, 500)])}}
                continue
            if rnd.random() < 0.05:
                # whole-number components beyond what a double holds exactly (2**53): they must survive the text form digit for digit
                big = rnd.choice([2 ** 53 + 1, 2 ** 53 + 3, 10 ** 17 + 1, 2 ** 63 + 11, 123456789012345678901])
                sg_ = rnd.choice([1, -1])
                k_ = rnd.choice(["y", "mo", "d", "w"])
                yield {"kind": "obj", "d": {k_: sg_ * big}, "big": True}
                continue
            if rnd.random() < 0.10:
                # Durations that are the RESULT of arithmetic (week form + unit form in either order, sums, multiples)
                sg_ = rnd.choice([1, -1])
                parts = [rnd.choice([{"w": sg_ * rnd.randint(1, 9)}, {"y": sg_ * rnd.randint(0, 3), "mo": sg_ * rnd.randint(0, 14)},
                                     {"d": sg_ * rnd.randint(0, 40), "h": sg_ * rnd.randint(0, 30)}, {"mo": sg_ * 1, "h": sg_ * 1.5},
                                     {"w": sg_ * 1}, {"s": sg_ * rnd.randint(0, 100000)}]) for _ in range(rnd.choice([2, 2, 3]))]
                yield {"kind": "obj", "sum": parts, "times": rnd.choice([1, 1, 2, 3])}
                continue
            if rnd.random() < 0.04:
                # arithmetic that ends at nothing, in weeks form and in unit form (P3W - P3W, P2W * 0, P1D + -P1D)
                k_ = rnd.randint(1, 9)
                yield {"kind": "obj", "sum": rnd.choice([[{"w": k_}, {"w": -k_}], [{"w": -k_}, {"w": k_}], [{"d": k_}, {"d": -k_}], [{"w": k_}]]),
                       "times": rnd.choice([1, 0, 0])}
                continue
            sg = rnd.choice([1, 1, -1])
            d = {}
            for k_, hi in (("y", 3000), ("mo", 40), ("d", 800), ("h", 100), ("mi", 3000), ("s", 100000)):
                if rnd.random() < 0.45:
                    d[k_] = sg * rnd.choice([0, 1, rnd.randint(0, hi)])
            last = next((k_ for k_ in ("s", "mi", "h") if k_ in d), None)
            x2 = rnd.random()
            if last and x2 < 0.4:
                d[last] = d[last] + sg * rnd.choice([0.5, 0.25, 0.125, 0.1, 0.3, 0.000001, 0.999999, 0.75])
            elif x2 < 0.55:
                # decimals on ANY of the time units (not only the last one present), incl. values so small that Python
                # prints them in exponent notation and values with many significant digits
                for k_ in ("h", "mi", "s"):
                    if rnd.random() < 0.5:
                        d[k_] = d.get(k_, 0) + sg * rnd.choice([0.5, 0.25, 0.1, 1.23456e-05, 9.99999e-05, 3e-10, 1.5e-05, 0.1234567891234, 1e-07,
                                                                0.000123456789, 2.5e-06])
            yield {"kind": "obj", "d": d}
        elif x < 0.88:
            yield {"kind": "alt", "reduced": rnd.choice(["ym", "y"]), "y": rnd.choice([0, 1, 4, 1999, rnd.randint(0, 9999)]), "mo": rnd.randint(0, 12)}
        else:
            ordinal = rnd.random() < 0.3
            yield {"kind": "alt", "y": rnd.choice([0, 1, 4, 10, 1999, rnd.randint(0, 9999)]), "mo": rnd.randint(0, 12) if not ordinal else 0,
                   "d": rnd.randint(0, 31) if not ordinal else rnd.randint(0, 366), "h": rnd.randint(0, 23), "mi": rnd.randint(0, 59),
                   "s": rnd.randint(0, 59), "basic": rnd.random() < 0.5, "ord": ordinal, "tform": rnd.choice(["hms", "hms", "hm", "h"]),
                   "dec": rnd.choice([None, None, "5", "25", "125", "75"]), "dsep": rnd.choice([",", "."])}


def jobs(tier, seed):
    if tier == "quick":
        return [{"n": 800, "seed": seed * 100 + j} for j in range(16)]
    return [{"n": 15000, "seed": seed * 1000 + j} for j in range(32)]
