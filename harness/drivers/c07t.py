"""C07 (truncated forms): TimePointParser(allow_truncated=True) on every documented truncated date form, alone and
with complete/reduced/truncated times and zones.
Case: {"gt": generation record}"""
import random

from harness import render
from harness.common import outcome, proj_trunc
from metomi.isodatetime.parsers import TimePointParser

PROP = "C07"
_P = [TimePointParser(allow_truncated=True, default_to_unknown_time_zone=True),
      TimePointParser(allow_truncated=True, assumed_time_zone=(5, 30)),
      TimePointParser(allow_truncated=True, num_expanded_year_digits=0),
      # a parser-level dump format must not override dump_as_parsed
      TimePointParser(allow_truncated=True, default_to_unknown_time_zone=True, dump_format="CCYY-MM-DDThh:mm:ssZ")]
BASIC = ["-YYMM", "-YY", "--MMDD", "--MM", "---DD", "YYMMDD", "YYDDD", "-DDD", "YYWwwD", "YYWww", "-zWwwD", "-zWww", "-WwwD", "-Www", "-W-D"]
EXT = ["-YY-MM", "--MM-DD", "YY-MM-DD", "YY-DDD", "-DDD", "YY-Www-D", "YY-Www", "-z-WwwD", "-z-Www", "-Www-D"]
LED = lambda f: f.startswith("-") or f == ""     # noqa: E731  '-'-led or empty truncated dates accept truncated times


def d2(n):
    return "%02d" % n


def date_text(gt):
    f = gt["tdform"]
    rep = [("YY", d2(gt["yc"])), ("MM", d2(gt["mo"])), ("DDD", "%03d" % gt["doy"]), ("DD", d2(gt["dom"])), ("Www", "W" + d2(gt["woy"])),
           ("z", str(gt["yd"]))]
    out = f
    # weekday: the single D that follows a week (or 'W-')
    if f.endswith("D") and ("W" in f):
        out = out[:-1] + "#"
    for k, v in rep:
        out = out.replace(k, v)
    return out.replace("#", str(gt["dow"]))


def time_text(gt):
    t = gt["tform"]
    dec = (chr(gt["sep"]) + "".join(str(x) for x in gt["ds"])) if gt["ds"] else ""
    if t == "-mmss":
        return "-" + d2(gt["mi"]) + d2(gt["ss"]) + dec
    if t == "-mm:ss":
        return "-" + d2(gt["mi"]) + ":" + d2(gt["ss"]) + dec
    if t == "-mm":
        return "-" + d2(gt["mi"]) + dec
    if t == "--ss":
        return "--" + d2(gt["ss"]) + dec
    return render.time_text(gt)


def text_of(gt):
    if gt["tform"] == "none":
        return date_text(gt)
    return date_text(gt) + "T" + time_text(gt) + ("" if gt["zform"] == "none" else render.zone_text(gt["zh"], gt["zm"], gt["zform"]))


def run_case(case, rec, cid):
    from harness.common import set_mode
    set_mode(case["mode"])        # the bounds of a year-less point depend on the active calendar mode
    rec.begin(cid)
    gt = case["gt"]
    text = text_of(gt)

    def f():
        p = _P[case["parser"]].parse(text, dump_as_parsed=True)
        return dict(q=proj_trunc(p), trunc=bool(p.truncated), dumped=render.codes(str(p)),
                    lg=p.get_largest_truncated_property_name() or "", sm=p.get_smallest_missing_property_name() or "")
    st, v = outcome(f)
    if st == "ok":
        rec.ev("ParseTrunc", cid, gt=gt, pz=["unknown", "assumed", "local", "unknown"][case["parser"]], text=render.codes(text), ok=True, cls="", **v)
    else:
        from harness.common import I
        q0 = {k: -1 for k in ("yc", "yd", "mo", "woy", "doy", "dom", "dow", "hh", "mi", "ss")}
        q0.update(hhus=0, mius=0, ssus=0, zh=0, zm=0, zu=True, trunc=True)
        rec.ev("ParseTrunc", cid, gt=gt, pz=["unknown", "assumed", "local", "unknown"][case["parser"]], text=render.codes(text), ok=False, cls=type(v).__name__, q=q0, trunc=False, dumped=[], lg="", sm="")
    return True


def expand(job):
    rnd = random.Random(job["seed"])
    for _ in range(job["n"]):
        ext = rnd.random() < 0.4
        f = rnd.choice([""] + (EXT if ext else BASIC)) if rnd.random() < 0.9 else ""
        gt = {"tdform": f, "yc": rnd.choice([0, 1, 99, rnd.randint(0, 99)]), "yd": rnd.randint(0, 9), "mo": rnd.choice([1, 2, 12, rnd.randint(1, 12)]),
              "dom": rnd.choice([1, 28, rnd.randint(1, 28)]), "doy": rnd.choice([1, 59, 365, rnd.randint(1, 365)]),
              "woy": rnd.choice([1, 52, rnd.randint(1, 52)]), "dow": rnd.randint(1, 7), "sep": rnd.choice([44, 46])}
        gt["hh"], gt["mi"], gt["ss"] = rnd.choice([0, 6, 23, rnd.randint(0, 23)]), rnd.choice([0, 30, 59, rnd.randint(0, 59)]), rnd.choice([0, 15, 59, rnd.randint(0, 59)])
        if f == "":
            tforms = ["hms-b", "hm-b", "h", "hms-e", "hm-e", "-mmss", "-mm", "--ss", "-mm:ss"]
        elif LED(f):
            tforms = ["none", "none"] + (["hms-e", "hm-e", "h", "-mm:ss", "-mm", "--ss"] if (ext and f != "-DDD") else ["hms-b", "hm-b", "h", "-mmss", "-mm", "--ss"])
        else:
            tforms = ["none", "none"] + (["hms-e", "hm-e", "h"] if ext else ["hms-b", "hm-b", "h"])
        gt["tform"] = rnd.choice(tforms)
        gt["ds"] = []
        if gt["tform"] != "none" and rnd.random() < 0.3:
            k = rnd.choice([1, 2, 3, 6])
            gt["ds"] = rnd.choice([[rnd.randint(0, 9) for _ in range(k)], [5], [2, 5]])
        basic_time = gt["tform"] in ("hms-b", "hm-b", "-mmss")
        ext_time = gt["tform"] in ("hms-e", "hm-e", "-mm:ss")
        zf = ["none", "none", "Z", "hh"] + ([] if ext_time else ["hhmm"]) + ([] if basic_time else ["hh:mm"])
        if f != "" and not f.startswith("-") and False:
            zf = ["none"]
        gt["zform"] = rnd.choice(zf) if gt["tform"] != "none" else "none"
        if gt["zform"] == "Z":
            gt["zh"], gt["zm"] = 0, 0
        elif gt["zform"] == "hh":
            gt["zh"], gt["zm"] = rnd.choice([1, -1, 5, -11, 12]), 0
        elif gt["zform"] == "none":
            gt["zh"], gt["zm"] = 0, 0
        else:
            zh = rnd.choice([0, 1, -3, 5, 13])
            zm = rnd.choice([0, 30, 45])
            gt["zh"], gt["zm"] = zh, (-zm if zh < 0 or (zh == 0 and rnd.random() < 0.4) else zm)
        from harness.common import MEANING, SPELLINGS
        sp = rnd.choice(SPELLINGS)
        if MEANING[sp] == "360day":
            gt["doy"] = min(gt["doy"], 360)
            gt["woy"] = min(gt["woy"], 51)      # a 360-day week-year has 51 or 52 weeks (the truncated year decides)
        yield {"gt": gt, "parser": rnd.randrange(4), "mode": sp}


def jobs(tier, seed):
    if tier == "quick":
        return [{"n": 700, "seed": seed * 100 + 70 + j} for j in range(4)]
    return [{"n": 15000, "seed": seed * 1000 + 700 + j} for j in range(12)]
