"""C19: the command line (metomi.isodatetime.main.main run in-process, stdout and exit status captured).
Cases: {"kind": "point", "cal", "envcal", "utc", "sys", "g", "offs": [duration descriptions], "spell": [...]}
       {"kind": "diff", ..., "g", "g2", "offs", "offs2", "total": None|"s"|"m"|"h"}
       {"kind": "rec", ..., "rec": recurrence description over generation records, "max": n}
       {"kind": "bad", ..., "argv": [...]}"""
import contextlib
import io
import os
import random
from fractions import Fraction

from harness import gen, render
from harness.common import DAY, I, MEANING, MEG, mk_dur, outcome, proj_dur, proj_tp
from harness.drivers import c07, c10, recur
from harness.drivers.c18 import with_zone
from metomi.isodatetime import main as M
from metomi.isodatetime.parsers import DurationParser, TimePointParser

PROP = "C19"
_DP = DurationParser()
_TP = TimePointParser(assumed_time_zone=(0, 0))


def run_cli(argv, envcal, sysz):
    """Returns (stdout text, exit code, message present, escaped exception or None)."""
    old = os.environ.get("ISODATETIMECALENDAR")
    if envcal:
        os.environ["ISODATETIMECALENDAR"] = envcal
    else:
        os.environ.pop("ISODATETIMECALENDAR", None)
    out, err = io.StringIO(), io.StringIO()
    code, msg, esc = 0, False, None
    try:
        with contextlib.redirect_stdout(out), contextlib.redirect_stderr(err):
            try:
                with_zone(sysz, lambda: M.main(list(argv)))
            except SystemExit as exc:
                if exc.code is None or exc.code == 0:
                    code = 0
                elif isinstance(exc.code, int):
                    code, msg = exc.code, bool(err.getvalue().strip())
                else:
                    code, msg = 1, bool(str(exc.code).strip())
            except Exception as exc:  # noqa: BLE001 - anything else reaching the caller is a traceback
                esc = exc
    finally:
        if old is None:
            os.environ.pop("ISODATETIMECALENDAR", None)
        else:
            os.environ["ISODATETIMECALENDAR"] = old
    return out.getvalue(), code, msg, esc


def dur_desc_text(d):
    """spelling of a duration description as a CLI offset (leading '-' for negative)."""
    neg = any(v < 0 for v in d.values())
    a = {k: abs(v) for k, v in d.items()}
    if "w" in a:
        s = "P%dW" % a["w"]
    else:
        s = "P" + "".join("%d%s" % (a[k], u) for k, u in (("y", "Y"), ("mo", "M"), ("d", "D")) if a.get(k))
        def num(v):      # decimal components: comma for positive offsets, point for negative ones (both are ISO 8601)
            return "%d" % v if float(v).is_integer() else repr(float(v)).replace(".", "." if neg else ",")
        t = "".join("%s%s" % (num(a[k]), u) for k, u in (("h", "H"), ("mi", "M"), ("s", "S")) if a.get(k))
        s += ("T" + t) if t else ""
        if s == "P":
            s = "P0Y"
    return ("-" if neg else "") + s


def alt_offset_text(rnd, d):
    """The alternative (date-time like) spelling of an offset, basic or extended, when every component fits it."""
    a = {k: abs(v) for k, v in d.items()}
    if any(not float(v).is_integer() for v in a.values()) or "w" in a or a.get("y", 0) > 9999 or a.get("mo", 0) > 11 or a.get("d", 0) > 30 or a.get("h", 0) > 23 or a.get("mi", 0) > 59 or a.get("s", 0) > 59:
        return None
    if rnd.random() < 0.5:
        s = "P%04d-%02d-%02dT%02d:%02d:%02d" % tuple(a.get(k, 0) for k in ("y", "mo", "d", "h", "mi", "s"))
    else:
        s = "P%04d%02d%02dT%02d%02d%02d" % tuple(a.get(k, 0) for k in ("y", "mo", "d", "h", "mi", "s"))
    return s


def off_args(rnd, opt, offs):
    out = []
    for d in offs:
        t = dur_desc_text(d)
        x = rnd.random()
        if x < 0.25:
            alt = alt_offset_text(rnd, d)
            if alt:
                t = ("-" if t.startswith("-") else rnd.choice(["", "+"])) + alt
        elif x < 0.4 and not t.startswith("-"):
            t = "+" + t          # an explicit plus sign
        if rnd.random() < 0.5:
            out.append("%s=%s" % (opt, t))
        else:
            out += [opt, t]
    return out


def base_args(case):
    a = []
    if case["cal"]:
        a.append("--calendar=" + case["cal"])
    if case["utc"]:
        a.append("--utc")
    return a


def common(case):
    cal = case["cal"] or case["envcal"] or "gregorian"
    return dict(cal=cal, utc=case["utc"], **case["sys"])


def run_case(case, rec, cid, begin=True):
    if begin:
        rec.begin(cid)
    k = case["kind"]
    rnd = random.Random(case.get("seed", 0))
    cm = common(case)
    if k == "point":
        item = render.tp_text(case["g"])
        pf = case.get("pf") or {"kind": "none"}
        pp = case.get("pp")
        argv = base_args(case)
        env_ref = None
        src = case.get("src", "item")
        if src == "ref-opt":
            argv += ["--ref=" + item, "ref"]
        elif src == "ref-env":
            env_ref = item
            argv += ["ref"]
        elif src == "ref-both":      # option AND environment, naming different instants: the option is what `ref` means
            env_ref = "20371225T000000Z" if item != "20371225T000000Z" else "1999-12-31T23:59:59+05:30"
            argv += [("-R" if case.get("seed", 0) % 2 and not item.startswith("-") else "--ref=") + item, "ref"]
        else:
            argv += [item]
        argv += off_args(rnd, rnd.choice(["--offset", "--offset1", "-s"]), case["offs"])
        if pf["kind"] == "strf":
            from harness.drivers.c17 import fmt_text
            argv.append(rnd.choice(["--print-format=", "--format="]) + fmt_text(pf["toks"]))
        elif pf["kind"] == "iso":
            argv.append("--print-format=" + pf["fmt"])
        if pp:
            from harness.drivers.c17 import fmt_text
            argv.append("--parse-format=" + fmt_text(pp))
        old_ref = os.environ.get("ISODATETIMEREF")
        if env_ref is not None:
            os.environ["ISODATETIMEREF"] = env_ref
        try:
            out, code, msg, esc = run_cli(argv, case["envcal"], case["sys"])
        finally:
            if env_ref is not None:
                if old_ref is None:
                    os.environ.pop("ISODATETIMEREF", None)
                else:
                    os.environ["ISODATETIMEREF"] = old_ref
        dummy_g = case["g"]
        rec.ev("CliPoint", cid, g=case["g"], offs=[proj_dur(mk_dur(d)) for d in case["offs"]], out=render.codes(out), code=code,
               pf={"kind": pf["kind"], "toks": pf.get("toks", []), "g": pf.get("g", dummy_g),
                   "lz": [bool(pf.get("lz")), (pf.get("lz") or [0, 0])[0], (pf.get("lz") or [0, 0])[1]]},
               pp={"has": bool(pp), "toks": pp or []},
               traceback=esc is not None, cls=type(esc).__name__ if esc else "", **cm)
        return True
    if k == "diff":
        argv = base_args(case) + [render.tp_text(case["g"]), render.tp_text(case["g2"])] + off_args(rnd, "--offset1", case["offs"]) \
            + off_args(rnd, "--offset2", case["offs2"])
        if case["total"]:
            argv.append("--as-total=" + case["total"])
        dpf = case.get("dpf") or []
        if dpf:      # a print format for the difference: the letters y m d h M s stand for its components, anything else is literal
            argv.append(rnd.choice(["--print-format=", "-f=", "--format="]) + "".join(t_["d"] if t_["d"] != "lit" else chr(t_["c"]) for t_ in dpf))
        out, code, msg, esc = run_cli(argv, case["envcal"], case["sys"])
        parsed, d, tlen = False, proj_dur(None), [0, 0, 0]
        txt = out.strip()
        if code == 0 and esc is None:
            if case["total"]:
                try:
                    unit = {"s": 1, "m": 60, "h": 3600}[case["total"].lower()]
                    us = int(round(Fraction(float(txt)) * unit * MEG))
                    dd, rem = divmod(us, DAY * MEG)
                    tlen, parsed = [I(dd), I(rem // MEG), I(rem % MEG)], True
                except ValueError:
                    pass
            elif not dpf:
                st, v = outcome(lambda: _DP.parse(txt))
                if st == "ok":
                    parsed, d = True, proj_dur(v)
        rec.ev("CliDiff", cid, dpf=dpf, g=case["g"], g2=case["g2"], offs=[proj_dur(mk_dur(x)) for x in case["offs"]],
               offs2=[proj_dur(mk_dur(x)) for x in case["offs2"]], total=bool(case["total"]), tlen=tlen, parsed=parsed, d=d,
               out=render.codes(out), code=code, traceback=esc is not None, cls=type(esc).__name__ if esc else "", **cm)
        return True
    if k == "total":      # --as-total=UNIT with a duration argument
        from harness.drivers.c10 import dur_text
        item = dur_text(case["gd"])
        argv = base_args(case) + ["--as-total=" + case["unit"], item]
        out, code, msg, esc = run_cli(argv, case["envcal"], case["sys"])
        parsed, tlen = False, [0, 0, 0]
        if code == 0 and esc is None:
            try:
                unit = {"s": 1, "m": 60, "h": 3600}[case["unit"].lower()]
                us = int(round(Fraction(float(out.strip())) * unit * MEG))
                dd, rem = divmod(us, DAY * MEG)
                tlen, parsed = [I(dd), I(rem // MEG), I(rem % MEG)], True
            except ValueError:
                pass
        rec.ev("CliTotal", cid, gd=case["gd"], tlen=tlen, parsed=parsed, out=render.codes(out), code=code,
               traceback=esc is not None, cls=type(esc).__name__ if esc else "", **cm)
        return True
    if k == "bad":
        out, code, msg, esc = run_cli(base_args(case) + case["argv"], case["envcal"], case["sys"])
        rec.ev("CliBad", cid, argv=[render.codes(a) for a in case["argv"]], code=code, msg=msg, traceback=esc is not None,
               cls=type(esc).__name__ if esc else "", **cm)
        return True
    if k == "rec":
        r = case["rec"]
        a_txt = render.tp_text(r["ga"])
        n_txt = "R%s/" % (r["n"] or "")
        if r["fmt"] == 3:
            item = n_txt + a_txt + "/" + dur_desc_text(r["d"])
        elif r["fmt"] == 4:
            item = n_txt + dur_desc_text(r["d"]) + "/" + a_txt
        else:
            item = n_txt + a_txt + "/" + render.tp_text(r["gs"])
        argv = base_args(case) + [item, "--max=%d" % case["max"]]
        out, code, msg, esc = run_cli(argv, case["envcal"], case["sys"])
        lines = out.splitlines() if code == 0 and esc is None else []
        pts = []
        for ln in lines:
            st, v = outcome(lambda ln=ln: _TP.parse(ln))
            if st == "ok":
                pts.append(v)
        expect = min(case["max"], r["n"]) if r["n"] else case["max"]
        if r["n"] == 1 or (r["fmt"] != 1 and not any(r["d"].values())):
            expect = 1
        rec.ev("CliRec", cid, item=render.codes(item), lines=len(lines), expect=expect, parsed=len(pts) == len(lines), code=code,
               traceback=esc is not None, cls=type(esc).__name__ if esc else "", **cm)
        if len(pts) == len(lines) and lines:
            from harness.common import mk_tp as _mk
            # the printed lines, read back, must be the series: validated by the iterator clauses under the CLI's calendar
            za = (0, 0) if (r["ga"]["zform"] == "none" or r["ga"]["tform"] == "none") else None
            desc = {"fmt": r["fmt"], "n": r["n"], "a": None, "d": r.get("d")}
            from metomi.isodatetime import timezone as _TZ
            lz = (0, 0) if case["utc"] else with_zone(case["sys"], _TZ.get_local_time_zone)     # validated by C18
            ap = TimePointParser(assumed_time_zone=tuple(lz))
            anchor = ap.parse(a_txt)
            second = ap.parse(render.tp_text(r["gs"])) if r["fmt"] == 1 else None
            inp = {"fmt": r["fmt"], "n": r["n"], "a": proj_tp(anchor), "s": proj_tp(second),
                   "d": proj_dur(mk_dur(r["d"])) if r["fmt"] != 1 else proj_dur(None), "r": {"note": 0}}
            rec.ev("IterOpen", cid, inp=inp, forward=not (r["fmt"] == 4 and r["n"] == 0))
            for p in pts:
                rec.ev("IterNext", cid, q=proj_tp(p))
            if r["n"] and len(lines) < case["max"]:
                rec.ev("IterStop", cid)
            else:
                rec.ev("IterAbandon", cid)
        return True
    raise ValueError(k)


def classify(case, rej, events):
    if case["kind"] == "rec" and rej["op"] in ("IterNext", "IterStop"):
        r = case["rec"]
        return recur.known_class({"fmt": r["fmt"], "n": r["n"], "a": {"prec": "hms"}, "d": r.get("d", {})})
    return None


OFFS = [{"d": 1}, {"d": -1}, {"h": 6}, {"h": -25}, {"mi": 90}, {"s": -1}, {"w": 1}, {"w": -2}, {"mo": 1}, {"mo": -1}, {"y": 1}, {"y": -4},
        {"d": 30, "h": 12}, {"y": -2, "s": -4}, {"mo": 13}, {"d": 366},
        {"h": 1.5}, {"mi": -0.5}, {"h": 2.25}, {"d": 1, "mi": 0.75}, {"h": -0.5}]      # decimal components that come to whole seconds
POINT_FORMS = None


def pick_g(rnd, m, forms, need_time=False):
    while True:
        form = rnd.choice(forms)
        if not form["wf"] or (need_time and form["tform"] == "none"):
            continue
        g = c07.fill(rnd, m, form, xd=rnd.choice([0, 0, 0, 2]))
        if g["neg"] or g["hh"] == 24 or not (20 <= g["y"] <= 9980):
            continue
        g["ds"] = []
        return g


def rand_env(rnd):
    cal = rnd.choice([None, None, "gregorian", "360day", "365day", "366day"])
    envcal = rnd.choice([None, None, None, "360day", "365day", "366day", "gregorian"])
    return cal, envcal


def expand(job):
    rnd = random.Random(job["seed"])
    forms = job["forms"]
    for _ in range(job["n"]):
        cal, envcal = rand_env(rnd)
        m = MEANING[cal or envcal or "gregorian"]
        base = {"cal": cal, "envcal": envcal, "utc": rnd.random() < 0.3, "sys": c07.rand_sys(rnd), "seed": rnd.randrange(10 ** 9)}
        x = rnd.random()
        if x < 0.45:
            case = dict(base, kind="point", g=pick_g(rnd, m, forms), offs=[dict(rnd.choice(OFFS)) for _ in range(rnd.choice([0, 1, 1, 2, 3]))])
            y = rnd.random()
            if y < 0.15:
                from harness.drivers.c17 import rand_format
                toks, _ = rand_format(rnd)
                if rnd.random() < 0.35:
                    # the year alone (no month / day / day-of-year directive next to it): for a week-date argument it is the
                    # CALENDAR year of that day that %Y names
                    toks = rnd.choice([[{"d": "Y", "c": 0}], [{"d": "Y", "c": 0}, {"d": "lit", "c": 32}, {"d": "X", "c": 0}],
                                       [{"d": "lit", "c": 121}, {"d": "Y", "c": 0}, {"d": "z", "c": 0}]])
                    wk = [f_ for f_ in forms if f_["wf"] and f_["dform"] in ("week-b", "week-e")]
                    if wk and rnd.random() < 0.7:
                        case["g"] = pick_g(rnd, m, wk)
                if not any(t_["d"] == "s" for t_ in toks):
                    case["pf"] = {"kind": "strf", "toks": toks}
            elif y < 0.35:
                fg = pick_g(rnd, m, [f_ for f_ in forms if f_["wf"] and f_["tform"] not in ("none",) and f_["zform"] != "none"])
                fg["ds"] = []
                ext = fg["dform"].endswith("-e")
                dtxt = {"cal-b": "CCYYMMDD", "cal-e": "CCYY-MM-DD", "ord-b": "CCYYDDD", "ord-e": "CCYY-DDD", "week-b": "CCYYWwwD", "week-e": "CCYY-Www-D"}[fg["dform"]]
                if fg["xd"]:
                    dtxt = "+X" + dtxt
                ttxt = {"hms-b": "hhmmss", "hm-b": "hhmm", "h": "hh", "hms-e": "hh:mm:ss", "hm-e": "hh:mm"}[fg["tform"]]
                lit = rnd.random() < 0.6
                if fg["zform"] == "Z":
                    ztxt, lz = "Z", [0, 0]
                elif lit:
                    zh, zm = rnd.choice([(1, 0), (-5, 0), (5, 30), (-3, -30), (0, -30), (13, 45)])
                    if fg["zform"] == "hh":
                        zm = 0
                    ztxt, lz = render.zone_text(zh, zm, fg["zform"]), [zh, zm]
                else:
                    ztxt, lz = {"hh": "+hh", "hhmm": "+hhmm", "hh:mm": "+hh:mm"}[fg["zform"]], None
                    if fg["zform"] == "hh":
                        continue      # "+hh" alone would drop the minutes of the point's own offset
                case["pf"] = {"kind": "iso", "g": fg, "fmt": dtxt + "T" + ttxt + ztxt, "lz": lz}
            elif y < 0.42:
                # a date-only print format, complete or reduced (year-month, year, year-week ...), in any representation
                # (a bare CCYY names the calendar year for calendar/ordinal input; for a week-date input it could as well be the
                #  week-numbering year, which is what the dumper prints - no statement settles that, so it is not generated)
                week_in = case["g"]["dform"] in ("week-b", "week-e", "yw-b", "yw-e")
                fg = pick_g(rnd, m, [f_ for f_ in forms if f_["wf"] and f_["tform"] == "none" and f_["dform"] != "c"
                                     and not (week_in and f_["dform"] == "y")])
                fg["ds"] = []
                dtxt = {"cal-b": "CCYYMMDD", "cal-e": "CCYY-MM-DD", "ord-b": "CCYYDDD", "ord-e": "CCYY-DDD", "week-b": "CCYYWwwD", "week-e": "CCYY-Www-D",
                        "ym": "CCYY-MM", "y": "CCYY", "yw-b": "CCYYWww", "yw-e": "CCYY-Www"}[fg["dform"]]
                if fg["xd"]:
                    dtxt = "+X" + dtxt
                case["pf"] = {"kind": "iso", "g": fg, "fmt": dtxt, "lz": None}
            elif y < 0.45:
                g2 = dict(case["g"], dform="cal-e", tform="hms-e", zform="hhmm", xd=0, ds=[])
                from harness import refcal as R_
                if g2["a"] > 12 or g2["b"] < 1 or g2["b"] > R_.dim(m, g2["y"], min(max(g2["a"], 1), 12)):
                    g2.update(a=2, b=28)
                if g2["zh"] == 0 and g2["zm"] == 0 and case["g"]["zform"] in ("none", "Z"):
                    g2.update(zh=rnd.choice([0, 1, -3]), zm=0)
                case["g"] = g2
                case["pp"] = [{"d": "F", "c": 0}, {"d": "lit", "c": 84}, {"d": "X", "c": 0}, {"d": "z", "c": 0}]
            y2 = rnd.random()
            if y2 < 0.1 and "pp" not in case:
                case["src"] = rnd.choice(["ref-opt", "ref-env", "ref-both"])
            yield case
        elif x < 0.7:
            case = dict(base, kind="diff", g=pick_g(rnd, m, forms), g2=pick_g(rnd, m, forms),
                        offs=[dict(rnd.choice(OFFS)) for _ in range(rnd.choice([0, 0, 1]))],
                        offs2=[dict(rnd.choice(OFFS)) for _ in range(rnd.choice([0, 0, 1]))], total=rnd.choice([None, None, "s", "M", "h", "H"]))
            if rnd.random() < 0.2:
                # the SAME offsets on both sides: they do not cancel when they are months or years (clamping at month ends)
                same = [dict(rnd.choice([{"mo": 1}, {"mo": -1}, {"y": 1}, {"y": -4}, {"mo": 13}, {"d": 1}, {"h": 6}])) for _ in range(rnd.choice([1, 1, 2]))]
                case["offs"], case["offs2"] = same, [dict(o_) for o_ in same]
            if case["total"] is None and rnd.random() < 0.3 and not any(isinstance(v_, float) for o_ in case["offs"] + case["offs2"] for v_ in o_.values()):
                letters = rnd.choice(["dhMs", "ymdhMs", "d", "hM", "s", "dh"])
                toks = []
                for ch in letters:
                    if toks:
                        toks.append({"d": "lit", "c": ord(rnd.choice(",:-_ /T"))})
                    toks.append({"d": ch, "c": 0})
                case["dpf"] = toks
            yield case
        elif x < 0.74:
            gd = {"neg": rnd.random() < 0.3, "wk": False, "w": 0, "ds": [], "sep": 44}
            for k_, hi in (("y", 30), ("mo", 40), ("d", 800), ("h", 100), ("mi", 3000), ("s", 100000)):
                gd[k_] = rnd.choice([-1, -1, 0, 1, rnd.randint(0, hi)])
            if all(gd[k_] < 0 for k_ in ("y", "mo", "d", "h", "mi", "s")):
                gd["d"] = rnd.randint(0, 9)
            if rnd.random() < 0.15:
                gd = {"neg": rnd.random() < 0.3, "wk": True, "w": rnd.randint(0, 60), "y": -1, "mo": -1, "d": -1, "h": -1, "mi": -1, "s": -1, "ds": [], "sep": 44}
            yield dict(base, kind="total", gd=gd, unit=rnd.choice(["s", "S", "m", "M", "h", "H"]))
        elif x < 0.85:
            fmt = rnd.choice([1, 3, 3, 4])
            ga = pick_g(rnd, m, [f for f in forms if f["wf"] and f["tform"] != "none"], need_time=True)
            r = {"fmt": fmt, "n": rnd.choice([0, 1, 2, 3, 5, 12]), "ga": ga}
            if fmt == 1:
                gs = dict(ga)
                # second point: one day / one hour later in the same notation
                from harness import refcal as R
                rep = {"ord-b": "ord", "ord-e": "ord", "week-b": "week", "week-e": "week"}.get(ga["dform"], "cal")
                n0 = {"cal": lambda: R.daynum(m, ga["y"], ga["a"], ga["b"]), "ord": lambda: R.year_start(m, ga["y"]) + ga["a"] - 1,
                      "week": lambda: R.from_week(m, ga["y"], ga["a"], ga["b"])}[rep]()
                yy, a, b = R.date_of(m, rep, n0 + rnd.choice([1, 7, 30]))
                gs.update(y=yy, a=a, b=b)
                r["gs"] = gs
            else:
                iv = rnd.choice(recur.EXACT_IV + recur.NOMINAL_IV)
                r["d"] = {k_: v for k_, v in iv.items()}
                if fmt == 4 and r["n"] >= 2 and not recur.is_exact(r["d"]):
                    r["d"] = {"d": 1}
            yield dict(base, kind="rec", rec=r, max=rnd.choice([1, 3, 10, 4]))
        else:
            good = render.tp_text(pick_g(rnd, m, forms))
            bad = rnd.choice(["garbage", "2000-13-01", "20000231T00Z", "2001-02-31", "T25", "2000-W54-1", "2001-367", "R/garbage", "R5/2000/PX",
                              "20000101T2460Z", "1999-12-31T24:01Z", "", "P1Y2Z", "2000-01-01T00:00:00+25:61x", "٢٠٠٠"])
            argv = rnd.choice([[bad], [bad, good], [good, bad], [good, "--offset=PT1X"], [good, "--offset", "garbage"], [good, good, "--offset2=P1"],
                               ["--as-total=s", bad], [bad, "--max=3"]])
            if rnd.random() < 0.35:
                # durations / offsets / intervals that match the notation's shape but whose numbers Python cannot convert, or
                # that overflow date-time arithmetic: float() failures are plain ValueErrors, infinities raise OverflowError
                odd = rnd.choice(["PT1.2.3H", "PT1,,5M", "PT1e400H", "PT6E999S", "-PT1e400M", "PT1.5.H", "PT.5S", "P1DT1e400S"])
                argv = rnd.choice([["--as-total=s", rnd.choice(["PT1.2.3H", "PT1,,5M", "PT1.5.H"])], [good, "--offset=" + odd], [good, "--offset1", odd],
                                   [good, good, "--offset2=" + odd], ["R/2020/" + odd], ["R3/" + odd + "/2020-01-01T00Z"], ["R2/2020-01-01T00Z/" + odd, "--max=2"]])
            yield dict(base, kind="bad", argv=argv)


def jobs(tier, seed):
    forms, _ = c07.forms_from_tlc()
    if tier == "quick":
        return [{"n": 500, "forms": forms, "seed": seed * 100 + j} for j in range(16)]
    return [{"n": 4000, "forms": forms, "seed": seed * 1000 + j} for j in range(32)]
