"""C02: comparison operators, hashing, sorting, sets on pools of time points.
Case: {"mode": spelling, "pool": [time point records]}"""
import random

from harness import gen
from harness import refcal as R
from harness.common import DAY, MEANING, mk_tp, outcome, proj_tp, set_mode, tp_rec

PROP = "C02"


def respell(rnd, m, rec_):
    """The same instant written in another representation / offset / (when whole) precision / 24:00 form."""
    from harness.common import tp_kwargs  # noqa: F401
    n = {"cal": lambda r: R.daynum(m, r["y"], r["a"], r["b"]), "ord": lambda r: R.year_start(m, r["y"]) + r["a"] - 1,
         "week": lambda r: R.from_week(m, r["y"], r["a"], r["b"])}[rec_["rep"]](rec_)
    sod = DAY if rec_["hh"] == 24 else rec_["hh"] * 3600 + max(rec_["mi"], 0) * 60 + max(rec_["ss"], 0)
    utc = n * DAY + sod - (rec_["zh"] * 3600 + rec_["zm"] * 60)
    zh, zm = rnd.choice(gen.ZONES)
    loc = utc + zh * 3600 + zm * 60
    n2, sod2 = divmod(loc, DAY)
    if sod2 == 0 and rnd.random() < 0.5:
        n2, sod2 = n2 - 1, DAY           # 24:00 of the previous day
    rep = rnd.choice(["cal", "ord", "week"])
    y, a, b = R.date_of(m, rep, n2)
    prec = "hms"
    if sod2 % 3600 == 0 and rnd.random() < 0.3:
        prec = "h"
    elif sod2 % 60 == 0 and rnd.random() < 0.3:
        prec = "hm"
    return tp_rec(rep, y, a, b, sod=sod2, prec=prec, zh=zh, zm=zm, xd=2 if (y < 0 or y > 9999) else 0)


def shifted(rnd, m, rec_, secs):
    r2 = respell(rnd, m, rec_)
    n = {"cal": lambda r: R.daynum(m, r["y"], r["a"], r["b"]), "ord": lambda r: R.year_start(m, r["y"]) + r["a"] - 1,
         "week": lambda r: R.from_week(m, r["y"], r["a"], r["b"])}[r2["rep"]](r2)
    sod = DAY if r2["hh"] == 24 else r2["hh"] * 3600 + max(r2["mi"], 0) * 60 + max(r2["ss"], 0)
    n2, sod2 = divmod(n * DAY + sod + secs, DAY)
    y, a, b = R.date_of(m, r2["rep"], n2)
    return tp_rec(r2["rep"], y, a, b, sod=sod2, prec="hms", zh=r2["zh"], zm=r2["zm"], xd=2 if (y < 0 or y > 9999) else 0)


def run_case(case, rec, cid):
    set_mode(case["mode"])
    rec.begin(cid)
    pts = [mk_tp(r) for r in case["pool"]]
    # members derived by arithmetic from points that have ALREADY been hashed / compared (sets, dict keys)
    from harness.common import Duration
    for i, secs in case.get("derive", []):
        hash(pts[i])
        pts[i] == pts[i]
        pts.append(pts[i] + Duration(seconds=secs))
    prj = [proj_tp(p) for p in pts]
    ids = {}

    def hid(p):
        return ids.setdefault(hash(p), len(ids))
    for i, a in enumerate(pts):
        for j, b in enumerate(pts):
            st, r = outcome(lambda: [bool(a == b), bool(a != b), bool(a < b), bool(a <= b), bool(a > b), bool(a >= b)])
            if st == "ok":
                st, h = outcome(lambda: (hid(a), hid(b)))
            if st == "ok":
                rec.ev("Cmp", cid, a=prj[i], b=prj[j], r=r, ha=h[0], hb=h[1], ok=True, cls="")
            else:
                rec.ev("Cmp", cid, a=prj[i], b=prj[j], r=[False] * 6, ha=0, hb=0, ok=False, cls=type(r if st == "err" else h).__name__)

    def pool():
        return dict(sorted=[proj_tp(p) for p in sorted(pts)], setsize=len(set(pts)), hashes=[hid(p) for p in pts],
                    lt=[[bool(a < b) for b in pts] for a in pts])
    st, v = outcome(pool)
    if st == "ok":
        rec.ev("Pool", cid, pool=prj, ok=True, cls="", **v)
    else:
        rec.ev("Pool", cid, pool=prj, ok=False, cls=type(v).__name__, sorted=[], setsize=0, hashes=[], lt=[])
    return True


def expand(job):
    rnd = random.Random(job["seed"])
    for _ in range(job["n"]):
        sp = gen.spelling(rnd)
        m = MEANING[sp]
        base = gen.rand_point(rnd, m, wide=rnd.random() < 0.3, whole=True, allow24=True)
        if rnd.random() < 0.25:
            # the first / last day of a year next to a leap year, close to midnight, in an offset that puts the UTC date in
            # the neighbouring year: comparison, hashing and subtraction re-zone across the year boundary (in either direction)
            y = rnd.choice([1999, 2000, 2001, 2003, 2004, 2005, 2020, 2021, 1900, 1901, 0, 1, -1, 4, 5, 2100, 2101])
            n = R.year_start(m, y) + rnd.choice([0, 0, -1, -1, 1, -2])
            if rnd.random() < 0.4:      # ... or the first / last day of a month (the end of February above all)
                mo_ = rnd.choice([3, 3, 3, 2, 5, 12, 1, 8])
                n = R.daynum(m, y, mo_, 1) + rnd.choice([0, 0, -1, 1])
            rep = rnd.choice(["cal", "ord", "ord", "week"])
            yy, a_, b_ = R.date_of(m, rep, n)
            zh, zm = rnd.choice([(1, 0), (-1, 0), (5, 30), (-3, -30), (13, 45), (-11, 0), (0, 30), (0, -30), (0, 0)])
            base = tp_rec(rep, yy, a_, b_, sod=rnd.choice([0, 1800, 3599, 84600, 86399, 43200, 1]), zh=zh, zm=zm, xd=2 if yy < 0 else 0)
        pool = [base]
        for _k in range(job.get("size", 6) - 1):
            x = rnd.random()
            if x < 0.35:
                pool.append(respell(rnd, m, rnd.choice(pool)))
            elif x < 0.8:
                pool.append(shifted(rnd, m, rnd.choice(pool), rnd.choice([1, -1, 59, -60, 3600, -3600, 86399, 86400, -86400, 86401,
                                                                           rnd.randint(-10 ** 6, 10 ** 6)])))
            else:
                pool.append(gen.rand_point(rnd, m, wide=False, whole=rnd.random() < 0.7))
        if rnd.random() < 0.3:
            # the end of a day written both ways in ONE representation and offset: <date>T24:00 and <next date>T00:00 (and a
            # second later), so that fast paths comparing raw fields of like-written operands meet the 24:00 form
            x = rnd.choice(pool)
            n_ = {"cal": lambda r: R.daynum(m, r["y"], r["a"], r["b"]), "ord": lambda r: R.year_start(m, r["y"]) + r["a"] - 1,
                  "week": lambda r: R.from_week(m, r["y"], r["a"], r["b"])}[x["rep"]](x)
            rep_ = rnd.choice([x["rep"], "cal", "cal"])
            for dn, sod_ in ((n_, DAY), (n_ + 1, 0), (n_ + 1, rnd.choice([1, 3600, 86399]))):
                yy_, a_, b_ = R.date_of(m, rep_, dn)
                pool.append(tp_rec(rep_, yy_, a_, b_, sod=sod_, zh=x["zh"], zm=x["zm"], xd=2 if (yy_ < 0 or yy_ > 9999) else x.get("xd", 0)))
        if rnd.random() < 0.15:
            # one instant written with a decimal hour / decimal minute whose fraction is not exact in binary, and in full
            # (T12,1 and T12:06:00; T12:30,1 and T12:30:06): the two must compare equal AND hash equally
            x = rnd.choice(pool)
            tenths = rnd.choice([1, 2, 3, 4, 6, 7, 8, 9])
            hh_ = rnd.randint(0, 23)
            if rnd.random() < 0.5:
                full = dict(x, prec="hms", hh=hh_, mi=6 * tenths, ss=0)
                short = dict(x, prec="h", hh=hh_, mi=-1, ss=-1, dec=str(tenths))
            else:
                mi_ = rnd.randint(0, 59)
                full = dict(x, prec="hms", hh=hh_, mi=mi_, ss=6 * tenths)
                short = dict(x, prec="hm", hh=hh_, mi=mi_, ss=-1, dec=str(tenths))
            full.pop("dec", None)
            pool += [full, short]
        rnd.shuffle(pool)
        derive = []
        for _k in range(2):
            i = rnd.randrange(len(pool))
            if "dec" in pool[i] or pool[i]["prec"] != "hms":
                continue
            secs = rnd.choice([1, -1, 3600, 86400, -86400, 90061])
            pool.append(shifted(rnd, m, pool[i], secs))        # the same instant, built fresh
            derive.append([i, secs])
        yield {"mode": sp, "pool": pool, "derive": derive}


def jobs(tier, seed):
    if tier == "quick":
        return [{"n": 60, "size": 6, "seed": seed * 100 + j} for j in range(16)]
    return [{"n": 500, "size": 7, "seed": seed * 1000 + j} for j in range(48)]


def _inexact(a, b):
    """The library re-zones a decimal-hour-form point in floating point: minutes/60.0 is exact only for
    multiples of 15 minutes.  Input class of the known finding (computed from the operands only)."""
    zd = (a["zh"] * 60 + a["zm"]) - (b["zh"] * 60 + b["zm"])
    for x in (a, b):
        if x["prec"] == "h" and (zd % 15 != 0 or x["zm"] % 15 != 0):
            return True
    return False


def _inst_us(m, p):
    """Microseconds since 2000-01-01T00Z of a projected point (used ONLY to narrow the class of a recorded finding)."""
    n = {"cal": lambda: R.daynum(m, p["y"], p["a"], p["b"]), "ord": lambda: R.year_start(m, p["y"]) + p["a"] - 1,
         "week": lambda: R.from_week(m, p["y"], p["a"], p["b"])}[p["rep"]]()
    return ((n * DAY + p["sod"] - (p["zh"] * 3600 + p["zm"] * 60)) * 1000000) + p["us"]


def _binary_inexact(x):
    """A decimal-hour / decimal-minute form whose fraction has no exact binary representation (fu = fraction of the last unit
    in millionths; k / 10^6 is dyadic iff 5^6 divides k)."""
    return x["prec"] in ("h", "hm") and x["frac"] and x["fu"] % 15625 != 0


def _noise_pair(m, a, b):
    """The recorded finding is float noise in re-zoning: it can only flip verdicts between operands that denote the SAME
    instant (to within a microsecond).  A wrong verdict between instants further apart is not that finding."""
    return _inexact(a, b) and abs(_inst_us(m, a) - _inst_us(m, b)) <= 1


def classify(case, rej, events):
    ev = rej["event"]
    m = MEANING[case["mode"]]
    if rej["op"] == "Cmp" and _noise_pair(m, ev["a"], ev["b"]):
        return "decimal-hour-form-rezoned-by-non-quarter-hour"
    # == goes by the (float) second of day, hash by the (hour, minute, second) split of the same float: for a fraction that is
    # not exact in binary the split leaves 59.99999999999872 s and the like.  Equal instants only, hash clause only.
    if rej["op"] == "Cmp" and (_binary_inexact(ev["a"]) or _binary_inexact(ev["b"])) \
            and abs(_inst_us(m, ev["a"]) - _inst_us(m, ev["b"])) <= 1:
        return "decimal-form-fraction-inexact-in-binary-hashes-differently"
    if rej["op"] == "Pool" and any(_noise_pair(m, a, b) for a in ev["pool"] for b in ev["pool"] if a is not b):
        return "decimal-hour-form-rezoned-by-non-quarter-hour"
    if rej["op"] == "Pool" and any((_binary_inexact(a) or _binary_inexact(b)) and abs(_inst_us(m, a) - _inst_us(m, b)) <= 1
                                   for a in ev["pool"] for b in ev["pool"] if a is not b):
        return "decimal-form-fraction-inexact-in-binary-hashes-differently"
    return None
