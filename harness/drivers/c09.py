"""C09: impossible dates are refused by the constructor and by every text notation; arbitrary text gives a valid
object or a ValueError-derived error, within the watchdog.
Cases: {"kind": "ctor", "mode", "c": {rep,y,a,b,hh,mi,ss,zh,zm}}
       {"kind": "text", ...}  (a C07 case whose generation record may carry out-of-range fields)
       {"kind": "fuzz", "mode", "parser": "tp"|"dur"|"rec", "cfg": n, "text": str}"""
import random

from harness import gen, render
from harness import refcal as R
from harness.common import MEANING, Duration, TimePoint, TimeRecurrence, cpu_watchdog, outcome, proj_tp, set_mode
from harness.drivers import c07
from metomi.isodatetime.parsers import DurationParser, TimePointParser, TimeRecurrenceParser

PROP = "C09"


class OpTimeout(Exception):
    pass


def _alarm(signum, frame):
    raise OpTimeout()


TP_CFGS = [dict(), dict(num_expanded_year_digits=0), dict(allow_truncated=True), dict(allow_only_basic=True),
           dict(allow_truncated=True, default_to_unknown_time_zone=True), dict(num_expanded_year_digits=3, assumed_time_zone=(5, 30))]
_TPP = [TimePointParser(**k) for k in TP_CFGS]
_DP = DurationParser()
_RP = [TimeRecurrenceParser(TimePointParser(**k), DurationParser()) for k in TP_CFGS[:3]]


def ctor_kwargs(c):
    kw = dict(year=c["y"], hour_of_day=c["hh"], minute_of_hour=c["mi"], second_of_minute=c["ss"],
              time_zone_hour=c["zh"], time_zone_minute=c["zm"], num_expanded_year_digits=2)
    if c["rep"] == "cal":
        kw.update(month_of_year=c["a"], day_of_month=c["b"])
    elif c["rep"] == "ord":
        kw.update(day_of_year=c["a"])
    else:
        kw.update(week_of_year=c["a"], day_of_week=c["b"])
    return kw


def run_case(case, rec, cid):
    set_mode(case["mode"])
    k = case["kind"]
    if k == "text":
        return c07.run_case(case, rec, cid)
    rec.begin(cid)
    if k == "ctor":
        c = case["c"]
        st, v = outcome(lambda: TimePoint(**ctor_kwargs(c)))
        if st == "ok":
            rec.ev("Ctor", cid, c=c, ok=True, cls="", ve=False, q=proj_tp(v))
        else:
            rec.ev("Ctor", cid, c=c, ok=False, cls=type(v).__name__, ve=isinstance(v, ValueError), q=proj_tp(None))
        return True
    if k == "fuzz":
        text = case["text"]
        which = case["parser"]
        with cpu_watchdog(20 if which == "rec" else 5, OpTimeout):
            if which == "tp":
                st, v = outcome(lambda: _TPP[case["cfg"] % len(_TPP)].parse(text))
            elif which == "dur":
                st, v = outcome(lambda: _DP.parse(text))
            else:
                st, v = outcome(lambda: _RP[case["cfg"] % len(_RP)].parse(text))
        q, isq = proj_tp(None), False
        if st == "ok":
            out = "obj"
            if isinstance(v, TimePoint) and not v.truncated:
                q, isq = proj_tp(v), True
            elif not isinstance(v, (TimePoint, Duration, TimeRecurrence)):
                out = "other"
        elif isinstance(v, OpTimeout):
            out = "timeout"
        elif isinstance(v, ValueError):
            out = "ve"
        else:
            out = "other"
        rec.ev("Fuzz", cid, parser=which, outcome=out, cls="" if st == "ok" else type(v).__name__, isq=isq, q=q, refuse=bool(case.get("refuse")),
               n=len(text), text=[min(ord(ch), 1 << 20) for ch in text[:60]])
        return st == "ok"
    raise ValueError(k)


ALPHA = "0123456789-+:,.TZWPRYMDHS/ "
ODD = ["٠", "١", "٩", "۵", "１", "９", "²", "①", "१", "é", "−", "－", "​", "\x00", "\n", "٣"]
SEEDS_TP = ["2000-01-02T03:04:05Z", "20000102T030405+0100", "2000-W01-1T00:00", "2000-001T12,5", "+0020000102", "1999-12-31T24:00:00-03:30",
            "2000", "20", "2000-12", "2000W52", "T06", "-W-1", "--0101", "2000-02-29T23:59:59,999999+13:45",
            # mixed notations (a basic date with an extended time or zone and vice versa): refused, but by which code path?
            "20000101T06:30", "20000101T0630+05:30", "2000-01-01T0630", "2000001T06:30:15,5Z", "2000W011T06:30-03:30", "20000101T::"]
SEEDS_DUR = ["P1Y2M3DT4H5M6S", "PT0,5H", "P2W", "-P1D", "P0Y", "PT1S", "P0001-02-03T04:05:06", "P00010203T040506", "P1DT", "PT"]
EXTREME = ["1e400", "6E999", "9" * 320, "1e3", "1.5e2", "0." + "0" * 30 + "1", "0" * 40 + "1", "1e-400", "inf", "nan", "1_0", "٣", "１２"]
SEEDS_REC = ["R/2000-01-01T00Z/P1D", "R5/2000-01-01T00Z/2000-01-02T00Z", "R3/P1M/2000-03-31T00Z", "R1/20000101T00Z/PT1H", "R/P1Y/2000"]


def classify(case, rej, events):
    """Recorded finding: a recurrence text whose interval carries a number of seven or more digits makes the TimeRecurrence
    constructor (called by the parser) walk the calendar a day / a month at a time - effectively for ever.  Only the `hang`
    clause, only the recurrence parser, only such texts."""
    import re
    if case.get("kind") == "fuzz" and case.get("parser") == "rec" and rej["clause"] == "hang":
        m = re.search(r"P[^/]*", case["text"][1:] if case["text"].startswith("R") else case["text"])
        for num in re.findall(r"\d+(?:[.,]\d*)?(?:[eE][+-]?\d+)?", m.group(0) if m else ""):
            try:
                big = float(num.replace(",", ".")) >= 1e7          # seven or more digits, or an exponent form of that size (PT1e30H)
            except ValueError:
                big = len(num) >= 7
            if big:
                return "recurrence-text-with-astronomical-interval"
    return None


def extreme(rnd, s):
    """Replace one number by one at the edge of what Python's float()/int() take: exponent forms, overflow to infinity,
    very long digit runs, non-ASCII digits."""
    import re
    runs = list(re.finditer(r"\d+", s))
    if not runs:
        return s
    mm = rnd.choice(runs)
    return s[:mm.start()] + rnd.choice(EXTREME) + s[mm.end():]


def mutate(rnd, s):
    x = rnd.random()
    if not s:
        return rnd.choice(ALPHA)
    i = rnd.randrange(len(s))
    if x < 0.07:
        return extreme(rnd, s)
    if x < 0.2:
        return s[:i] + s[i + 1:]
    if x < 0.4:
        return s[:i] + rnd.choice(ALPHA) + s[i:]
    if x < 0.55:
        return s[:i] + rnd.choice(ALPHA) + s[i + 1:]
    if x < 0.65:
        return s[:i] + rnd.choice(ODD) + s[i + 1:]
    if x < 0.75:
        j = rnd.randrange(len(s))
        return s[:min(i, j)] + s[max(i, j):]
    if x < 0.85:
        t = rnd.choice(SEEDS_TP + SEEDS_DUR + SEEDS_REC)
        return s[:i] + t[rnd.randrange(len(t)):]
    if x < 0.92:
        return s[:i] + s[i] * rnd.randint(2, 4) + s[i + 1:]
    return "".join(rnd.choice(ALPHA + "".join(ODD)) for _ in range(rnd.randint(0, 24)))


def expand(job):
    rnd = random.Random(job.get("seed", 0))
    k = job["kind"]
    if k == "tables":
        # the date part of the table for ONE year under several modes in turn, in one process: what an earlier mode
        # left in the memo tables must not decide what the next mode admits (29 Feb, day 366, week 53, the 31st)
        for sp in job["modes"]:
            for c_ in expand({"kind": "table", "mode": sp, "y": job["y"], "dates_only": True}):
                yield c_
    elif k == "table":
        sp, y = job["mode"], job["y"]
        base = {"y": y, "hh": 12, "mi": 0, "ss": 0, "zh": 0, "zm": 0}
        for mo in range(-1, 15):
            for d in range(-1, 34):
                yield {"kind": "ctor", "mode": sp, "c": dict(base, rep="cal", a=mo, b=d)}
        for doy in list(range(-1, 4)) + list(range(358, 369)):
            yield {"kind": "ctor", "mode": sp, "c": dict(base, rep="ord", a=doy, b=0)}
        for w in list(range(-1, 4)) + list(range(50, 56)):
            for d in range(-1, 10):
                yield {"kind": "ctor", "mode": sp, "c": dict(base, rep="week", a=w, b=d)}
        if job.get("dates_only"):
            return
        for hh in range(-1, 27):
            for mi in (-1, 0, 59, 60, 61):
                for ss in (-1, 0, 59, 60, 61):
                    yield {"kind": "ctor", "mode": sp, "c": dict(base, rep="cal", a=1, b=1, hh=hh, mi=mi, ss=ss)}
        for zh in (-101, -100, -99, -1, 0, 1, 99, 100, 101):
            for zm in (-61, -60, -59, -1, 0, 1, 59, 60, 61):
                yield {"kind": "ctor", "mode": sp, "c": dict(base, rep="cal", a=1, b=1, zh=zh, zm=zm)}
    elif k == "badtext":
        forms, _ = None, None
        for _ in range(job["n"]):
            sp = gen.spelling(rnd)
            m = MEANING[sp]
            form = rnd.choice(job["forms"])
            if not form["wf"]:
                continue
            g = c07.fill(rnd, m, form, xd=rnd.choice([0, 0, 2]))
            rep = {"ord-b": "ord", "ord-e": "ord", "week-b": "week", "week-e": "week", "yw-b": "week", "yw-e": "week"}.get(g["dform"], "cal")
            yy = -g["y"] if g["neg"] else g["y"]
            choice = rnd.choice(["date", "date", "time", "zone"])
            if choice == "date":
                if rep == "cal" and g["dform"] in ("cal-b", "cal-e"):
                    g["a"], g["b"] = rnd.choice([(0, 1), (13, 1), (2, 30), (2, 29), (2, 31), (4, 31), (1, 32), (12, 0), (6, 31), (1, 0), (99, 99), (2, 28)])
                elif g["dform"] == "ym":
                    g["a"] = rnd.choice([0, 13, 12, 1, 99])
                elif rep == "ord":
                    g["a"] = rnd.choice([0, 365, 366, 367, 360, 361, 999])
                elif g["dform"] in ("week-b", "week-e"):
                    g["a"], g["b"] = rnd.choice([(0, 1), (53, 1), (54, 1), (52, 7), (1, 0), (1, 8), (1, 9), (53, 7), (99, 1)])
                elif rep == "week":
                    g["a"] = rnd.choice([0, 52, 53, 54])
            elif choice == "time" and g["tform"] != "none":
                g["hh"], g["mi"], g["ss"] = rnd.choice([(24, 0, 0), (24, 0, 1), (24, 1, 0), (25, 0, 0), (23, 60, 0), (23, 59, 60), (0, 61, 0), (99, 0, 0), (24, 30, 0), (12, 0, 61)])
                if g["hh"] == 24 and rnd.random() < 0.5:
                    g["ds"] = rnd.choice([[0], [5], [0, 0, 1], []])
            elif choice == "zone" and g["zform"] in ("hhmm", "hh:mm"):
                g["zm"] = rnd.choice([60, 61, 99, 59]) * (1 if g["zh"] >= 0 else -1)
            yield {"kind": "text", "mode": sp, "g": g, "cfg": dict(c07.rand_cfg(rnd, g), basic=False), "sys": c07.rand_sys(rnd)}
    elif k == "recbad":
        # an impossible (or unreadable) date-time in ANY slot of a recurrence, with any repetition count, must be refused
        bad = ["2001-02-29T00Z", "2021-W53-1T00Z", "2000-01-01T24:01Z", "2000-13-01T00Z", "2000-01-01T00+05:60", "2001-366T00Z", "2000-04-31T00Z",
               "2000-01-01T25Z", "2000-01-01T00:60Z", "not-a-date", "2000-W00-1T00Z", "2000-W01-8T00Z"]
        good = ["2000-01-01T00Z", "2000-02-28T12:00:00+01:00", "1999-365T00Z"]
        for b_ in bad:
            for reps in ("", "1", "2", "5"):
                for text in ("R%s/%s/%s" % (reps, good[0], b_), "R%s/%s/%s" % (reps, b_, good[1]), "R%s/%s/P1D" % (reps, b_), "R%s/P1D/%s" % (reps, b_),
                             "R%s/%s/PT0S" % (reps, b_)):
                    yield {"kind": "fuzz", "mode": "gregorian", "parser": "rec", "cfg": 0, "text": text, "refuse": True}
    elif k == "fixed":
        # the recorded finding (known_findings.json: recurrence-text-with-astronomical-interval), exercised in every run
        yield {"kind": "fuzz", "mode": "gregorian", "parser": "rec", "cfg": 0, "text": "R3/P000001000000000000000000000000000000000001M/2000-03-31T00Z"}
    elif k == "fuzz":
        for _ in range(job["n"]):
            which = rnd.choice(["tp", "tp", "dur", "rec"])
            s = rnd.choice({"tp": SEEDS_TP, "dur": SEEDS_DUR, "rec": SEEDS_REC}[which])
            if rnd.random() < 0.06:
                s = extreme(rnd, s)          # an otherwise well-formed expression with one extreme number
            else:
                for _m in range(rnd.randint(1, 4)):
                    s = mutate(rnd, s)
            if which == "rec":      # cap repetition counts at two digits (DESIGN section 3: cost is linear in days walked)
                import re
                s = re.sub(r"^R(\d{3,})", lambda mm: "R" + mm.group(1)[:2], s)
            yield {"kind": "fuzz", "mode": gen.spelling(rnd), "parser": which, "cfg": rnd.randrange(6), "text": s}
    else:
        raise ValueError(k)


def jobs(tier, seed):
    forms, _ = c07.forms_from_tlc()
    out = []
    yt = [("gregorian", 1900), ("gregorian", 2000), ("gregorian", 2003), ("gregorian", 2004), ("gregorian", 2020), ("gregorian", 0),
          ("360day", 2004), ("365day", 2004), ("366day", 2003), ("360_day", 2015), ("365_day", 2015), ("366_day", 2020)]
    for sp, y in yt if tier == "quick" else yt + [(m_, y_) for m_ in gen.MODES4 for y_ in (-4, -1, 1, 1999, 2100, 2400, 9999)]:
        out.append({"kind": "table", "mode": sp, "y": y})
    out.append({"kind": "tables", "y": 2004, "modes": ["gregorian", "365day", "366day", "360day", "gregorian"]})
    out.append({"kind": "tables", "y": 2020, "modes": ["365_day", "gregorian", "360_day", "366_day", "gregorian"]})
    out.append({"kind": "fixed"})
    out.append({"kind": "recbad"})
    n = 1200 if tier == "quick" else 20000
    for j in range(4 if tier == "quick" else 12):
        out.append({"kind": "badtext", "forms": forms, "n": n, "seed": seed * 100 + j})
        out.append({"kind": "fuzz", "n": n * 2, "seed": seed * 100 + 50 + j})
    return out
