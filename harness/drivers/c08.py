"""C08: str -> parse -> str round trip and custom complete dump formats.
Case: {"mode", "p": time point record (fractions of at most 6 digits), "fmts": [dump formats]}"""
import random

from harness import gen, render
from harness import refcal as R
from harness.common import MEANING, mk_tp, outcome, proj_tp, set_mode
from metomi.isodatetime.dumpers import TimePointDumper
from metomi.isodatetime.parsers import TimePointParser

PROP = "C08"
_P = {}
_D = {}


def parser(xd):
    if xd not in _P:
        _P[xd] = TimePointParser(num_expanded_year_digits=xd, assumed_time_zone=(71, 17))
    return _P[xd]


def run_case(case, rec, cid):
    set_mode(case["mode"])
    rec.begin(cid)
    p = mk_tp(case["p"])
    _one(case, rec, cid, p)
    if case.get("also") is not None:       # the same instant written differently, dumped in the same process
        import random
        from harness.common import respellings
        for q in respellings(p, random.Random(case["also"])):
            _one(case, rec, cid, q)
    return True


def _one(case, rec, cid, p):
    xd = case["p"].get("xd", 0)

    def f():
        s = str(p)
        q = parser(xd).parse(s)
        return dict(text=render.codes(s), q=proj_tp(q), text2=render.codes(str(q)), eq=bool(q == p) and not bool(q != p))
    st, v = outcome(f)
    pp = proj_tp(p)
    if st == "ok":
        rec.ev("StrTrip", cid, p=pp, ok=True, cls="", **v)
    else:
        rec.ev("StrTrip", cid, p=pp, ok=False, cls=type(v).__name__, text=[], q=pp, text2=[], eq=False)
    def props():
        from harness.common import I
        return dict(cen=I(p.century), yoc=I(p.year_of_century), yod=I(p.year_of_decade), doc=I(p.decade_of_century), ysign=ord(p.year_sign),
                    zsign=ord(p.time_zone_sign), zha=I(p.time_zone_hour_abs), zma=I(p.time_zone_minute_abs), sod=I(int(p.get_second_of_day())))
    st, v = outcome(props)
    if st == "ok":
        rec.ev("Props", cid, p=pp, ok=True, cls="", **v)
    else:
        rec.ev("Props", cid, p=pp, ok=False, cls=type(v).__name__, cen=0, yoc=0, yod=0, doc=0, ysign=0, zsign=0, zha=0, zma=0, sod=0)
    if case.get("own"):
        from harness.common import TimePoint as _TP, tp_kwargs
        ofmt = "+X" + DATES[case["p"]["rep"]][0] + "Thh:mm:ss+hh:mm"

        def own():
            p2 = _TP(dump_format=ofmt, **tp_kwargs(case["p"]))
            s = str(p2)
            q = parser(xd).parse(s)
            return dict(text=render.codes(s), q=proj_tp(q), eq=bool(q == p2) and str(_TP(dump_format=ofmt, **tp_kwargs(case["p"]))) == s)
        st, v = outcome(own)
        if case["p"]["prec"] == "hms" and not case["p"].get("dec") and case["p"]["hh"] < 24:
            if st == "ok":
                rec.ev("DumpTrip", cid, p=pp, fmt=render.codes(ofmt), ok=True, cls="", **v)
            else:
                rec.ev("DumpTrip", cid, p=pp, fmt=render.codes(ofmt), ok=False, cls=type(v).__name__, text=[], q=pp, eq=False)
    for fmt in case.get("fmts", []):
        def g(fmt=fmt):
            d = _D.setdefault(xd, TimePointDumper(num_expanded_year_digits=xd))
            s = d.dump(p, fmt)
            q = parser(xd).parse(s)
            return dict(text=render.codes(s), q=proj_tp(q), eq=bool(q == p))
        st, v = outcome(g)
        if st == "ok":
            rec.ev("DumpTrip", cid, p=pp, fmt=render.codes(fmt), ok=True, cls="", **v)
        else:
            rec.ev("DumpTrip", cid, p=pp, fmt=render.codes(fmt), ok=False, cls=type(v).__name__, text=[], q=pp, eq=False)
    return True


DATES = {"cal": ["CCYY-MM-DD", "CCYYMMDD"], "ord": ["CCYY-DDD", "CCYYDDD"], "week": ["CCYY-Www-D", "CCYYWwwD"]}


def formats(rnd, p, safe=False):
    """complete dump formats: a complete date (any representation), the time down to p's precision, a zone.
    safe: for years at the edge of what the format can express - p's own representation and offset (no re-zoning, no other
    year numbering), so the dumped year is exactly p's."""
    out = []
    for _ in range(3):
        rep = p["rep"] if safe else rnd.choice(["cal", "ord", "week"])
        ext = rnd.random() < 0.5
        d = DATES[rep][0 if ext else 1]
        if p.get("xd"):
            d = "+X" + d
        dec = "dec" in p
        if p["prec"] == "hms":
            t = ("hh:mm:ss" if ext else "hhmmss") + (",tt" if dec else "")
        elif p["prec"] == "hm":
            t = ("hh:mm" if ext else "hhmm") + ",nn"
        else:
            t = "hh,ii"
        whole = p["prec"] == "hms" and not dec
        if whole and not safe and rnd.random() < 0.5:
            z = rnd.choice(["Z", "+01:00" if ext else "+0100", "-03:30" if ext else "-0330", "+13:45" if ext else "+1345", "-00:30" if ext else "-0030"])
        else:
            z = "+hh:mm" if ext else "+hhmm"
        out.append(d + "T" + t + z)
    return out


def expand(job):
    rnd = random.Random(job["seed"])
    for _ in range(job["n"]):
        sp = gen.spelling(rnd)
        m = MEANING[sp]
        p = gen.rand_point(rnd, m, wide=rnd.random() < 0.3, whole=rnd.random() < 0.6, allow24=rnd.random() < 0.2)
        if rnd.random() < 0.06:
            # the extreme years a format can express: 0000 / 9999, and -/+ 99..9 with expanded digits
            xd_ = rnd.choice([0, 0, 1, 2])
            top = 10 ** (4 + xd_) - 1
            y_ = rnd.choice([top, top, 0, -top] if xd_ else [top, top, 0])
            n_ = R.year_start(m, y_) + rnd.choice([0, 1, 40, R.diy(m, y_) - 1, R.diy(m, y_) - 2])
            rep_ = rnd.choice(["cal", "ord"])
            yy_, a_, b_ = R.date_of(m, rep_, n_)
            p = dict(p, rep=rep_, y=yy_, a=a_, b=b_, xd=xd_, edge=True)
        if "dec" in p and len(p["dec"]) > 6:
            p["dec"] = p["dec"][:6]
        if p.pop("edge", False):
            pass
        elif p["y"] < 0 or p["y"] > 9999:
            p["xd"] = rnd.choice([2, 3, 4]) if abs(p["y"]) <= 999999 else 3
        elif rnd.random() < 0.15:
            p["xd"] = rnd.choice([1, 2, 3])      # several digit settings in one process (dumpers are cached per setting)
        # years at the edge of the dumper's range would be pushed out of it by a literal-zone format
        inner = (1 <= p["y"] <= 9998) if not p.get("xd") else abs(p["y"]) <= 10 ** (4 + p["xd"]) - 3
        fm = formats(rnd, p) if inner else formats(rnd, p, safe=True)
        if rnd.random() < 0.03:
            # a point with expanded digits in year -1 / 10000, a few minutes from year 0 / 9999 in UTC, dumped with a plain CCYY...Z format
            if rnd.random() < 0.5:
                n_, sod_, z_ = R.year_start(m, 0) - 1, 84600, (-1, 0)       # -0001-12-31T23:30-01:00 = 0000-01-01T00:30Z
            else:
                n_, sod_, z_ = R.year_start(m, 10000), 1800, (1, 0)         # 10000-01-01T00:30+01:00 = 9999-12-31T23:30Z
            rep_ = rnd.choice(["cal", "ord"])
            yy_, a_, b_ = R.date_of(m, rep_, n_)
            from harness.common import tp_rec
            p = tp_rec(rep_, yy_, a_, b_, sod=sod_, zh=z_[0], zm=z_[1], xd=2)
            fm = [DATES[rep_][0] + "Thh:mm:ssZ", DATES[rep_][1] + "ThhmmssZ"]
            inner = False
        case = {"mode": sp, "p": p, "fmts": fm}
        if p.get("xd") and rnd.random() < 0.3:
            case["own"] = True       # the point also carries its own dump format with the +X year field
        if inner and p["prec"] == "hms" and not p.get("dec") and p["hh"] < 24 and rnd.random() < 0.12:
            case["also"] = rnd.randrange(10 ** 6)
        yield case


def jobs(tier, seed):
    if tier == "quick":
        return [{"n": 600, "seed": seed * 100 + j} for j in range(16)]
    return [{"n": 12000, "seed": seed * 1000 + j} for j in range(32)]
