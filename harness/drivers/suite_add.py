"""Test-suite traces restricted to Add events (see suite.py)."""
from harness.drivers.suite import expand, run_case  # noqa: F401

CASE_TIMEOUT = 900


def jobs(tier, seed):
    return [{"kinds": "Add"}]
