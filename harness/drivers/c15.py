"""C15: histories of calendar-mode switches interleaved with calendar computations, in ONE live process
(caches are never cleared).  A case is a whole history:
  {"hist": [{"op": "SetMode", "sp": spelling} | {"op": "Query", "fn", "a", "b"} | {"op": "Do", "drv": driver, "case": case}]}
Histories come from TLC (Gen_C15*.cfg: every behaviour of Lib.tla to a depth) and from seeded random walks."""
import importlib
import random

from harness import gen, tlc
from harness.common import D, I, MEANING, SPELLINGS, cur_mode, outcome, set_mode

PROP = "C15"


def q_is_leap(a, b):
    return [1 if D.get_is_leap_year(a) else 0]


QUERIES = {
    "is_leap": q_is_leap,
    "days_in_year": lambda a, b: [D.get_days_in_year(a)],
    "days_in_month": lambda a, b: [D.get_days_in_month(b, a)],
    "weeks_in_year": lambda a, b: [D.get_weeks_in_year(a)],
    "year_range": lambda a, b: [D.get_days_in_year_range(a, b)],
    "week_start_cal": lambda a, b: list(D.get_calendar_date_week_date_start(a)),
    "week_start_ord": lambda a, b: list(D.get_ordinal_date_week_date_start(a)),
    "since_1ad": lambda a, b: [D.get_days_since_1_ad(a)],
    "months_days": lambda a, b: [len(list(D.iter_months_days(a))), max(d for m_, d in D.iter_months_days(a) if m_ == 2)],
    "ord_of_cal": lambda a, b: list(D.get_ordinal_date_from_calendar_date(a, 3, 1)),
    "week_of_cal": lambda a, b: list(D.get_week_date_from_calendar_date(a, 3, 1)),
}
FNS = sorted(QUERIES)
QYEARS = [2000, 2004, 2019, 2020, 2021, 1900, 2015, 4, 1, 1999, 2032, 2100, 0, -1, -4, 400]


def run_case(case, rec, cid):
    set_mode(None)        # a history starts in the default mode (caches are NOT cleared: the process lives on)
    rec.begin(cid)
    for step in case["hist"]:
        if step["op"] == "SetMode":
            # through the command line's operator class every other time; the mode it then reports is logged with the event
            from metomi.isodatetime.datetimeoper import DateTimeOperator
            if len(rec.events) % 2:
                DateTimeOperator.set_calendar_mode(step["sp"])
            else:
                set_mode(step["sp"])
            rec.ev("SetMode", cid, sp=step["sp"], rep=str(DateTimeOperator.get_calendar_mode()))
        elif step["op"] == "Query":
            st, v = outcome(lambda: [I(x) for x in QUERIES[step["fn"]](step["a"], step["b"])])
            if st == "ok":
                rec.ev("CalQ", cid, fn=step["fn"], a=step["a"], b=step["b"], res=v, ok=True, cls="")
            else:
                rec.ev("CalQ", cid, fn=step["fn"], a=step["a"], b=step["b"], res=[], ok=False, cls=type(v).__name__)
        elif step["op"] == "Cli":    # a command-line invocation inside the same process: it selects (and leaves) a calendar
            from harness.drivers import c19
            g = {"dform": "cal-b", "tform": "hms-b", "zform": "Z", "sep": 44, "xd": 0, "neg": False, "y": 2004, "a": 2, "b": 28,
                 "hh": 0, "mi": 0, "ss": 0, "ds": [], "zh": 0, "zm": 0}
            c19.run_case({"kind": "point", "cal": step["opt"] or None, "envcal": step["env"] or None, "utc": False,
                          "sys": {"tz": 0, "alt": 0, "daylight": 0, "isdst": 0}, "g": g, "offs": [{"d": 2}], "seed": 0}, rec, cid, begin=False)
            st, v = outcome(lambda: [I(x) for x in QUERIES[step["fn"]](step["a"], step["b"])])
            rec.ev("CalQ", cid, fn=step["fn"], a=step["a"], b=step["b"], res=v if st == "ok" else [], ok=st == "ok", cls="" if st == "ok" else type(v).__name__)
        else:   # an operation of another property's driver, executed under the mode of this history
            mod = importlib.import_module("harness.drivers." + step["drv"])
            rec.ev("SetMode", cid, sp=step["case"]["mode"])      # the inner driver switches to its case's spelling
            n0 = len(rec.events)
            mod.run_case(step["case"], rec, cid)
            # the inner driver sets the mode itself (same spelling) and logs a Begin; keep one history: drop that Begin
            rec.events[:] = rec.events[:n0] + [e for e in rec.events[n0:] if e["op"] != "Begin"]
    return True


def rand_query(rnd):
    fn = rnd.choice(FNS)
    a = rnd.choice(QYEARS)
    b = 0
    if fn == "days_in_month":
        b = rnd.choice([2, 2, 1, 12])
    if fn == "year_range":
        b = a + rnd.choice([0, 1, 4, 30])
    return {"op": "Query", "fn": fn, "a": a, "b": b}


def rand_do(rnd, sp):
    """A mode-sensitive operation of another property's driver, on a small set of years so that cache keys recur."""
    m = MEANING[sp]
    yrs = [2000, 2004, 2019, 2020, 2021, 1900, 0, 4]
    x = rnd.random()
    if rnd.random() < 0.12:
        # year/month durations: their rough length (ordering, get_seconds, get_days_and_seconds) counts a year as the
        # mode's common-year length
        from harness.drivers import c11
        return {"op": "Do", "drv": "c11", "case": {"mode": sp, "a": rnd.choice([{"y": 1}, {"y": 2, "mo": 1}, {"y": -1, "d": 3}, {"mo": 12}]),
                                                     "b": rnd.choice([{"mo": 12}, {"d": 360}, {"d": 365}, {"d": 366}, {"y": 1}]),
                                                     "c": c11.rand_dur(rnd), "n": rnd.randint(-3, 3)}}
    if rnd.random() < 0.08:
        # Unix time: the day count from 1970 goes through the year lengths of the mode, leap years before the epoch included
        p = gen.rand_point(rnd, m, wide=False, whole=True, allow24=False, years=[1968, 1964, 1969, 1970, 1972, 1900, 2000, 2020, 1600], zones=[(0, 0), (5, 30), (-3, -30)])
        return {"op": "Do", "drv": "c18", "case": {"kind": "since", "mode": sp, "p": dict(p, prec="hms", mi=max(p["mi"], 0), ss=max(p["ss"], 0))}}
    if rnd.random() < 0.18:
        # truncated additions: the search for the next 29th / day 366 / week 53 depends on the mode's month and year lengths
        from harness.drivers import c20
        p = gen.rand_point(rnd, m, wide=False, whole=True, allow24=False, years=[1900, 1999, 2000, 2020, 2021, 2023], zones=[(0, 0)])
        p = dict(p, prec="hms", mi=max(p["mi"], 0), ss=max(p["ss"], 0))
        if rnd.random() < 0.6:
            p.update(rep="cal", a=2, b=rnd.choice([1, 27, 28]))       # February: the 29th exists or not, by mode and year
        from harness import refcal as R_
        while True:
            t = c20.rand_trunc(rnd, m, p)
            x_ = rnd.random()
            if x_ < 0.4:
                t.update(dom=min(rnd.choice([29, 30, 31]), max(R_.ML[m][1])), doy=0, dow=0, woy=0)
            elif x_ < 0.6:
                t.update(dom=0, doy=0, dow=rnd.randint(1, 7), woy=53)        # week 53: exists in some years of some modes, never in a 360-day one
            # (the class of C20's recorded finding - minute/second without hour plus a day designator - is left to C20)
            if c20.classify({"t": t}, {"clause": "not-the-earliest-time-of-day"}, []) is None:
                break
        return {"op": "Do", "drv": "c20", "case": {"mode": sp, "t": t, "p": p, "order": rnd.choice(["t+p", "p+t"])}}
    if x < 0.3:
        p = gen.rand_point(rnd, m, wide=False, whole=True, allow24=False, years=yrs, zones=[(0, 0), (1, 0)])
        p = dict(p, prec="hms", mi=max(p["mi"], 0), ss=max(p["ss"], 0))
        return {"op": "Do", "drv": "c01", "case": {"mode": sp, "p": p, "d": rnd.choice([{"d": 1}, {"d": -1}, {"d": 60}, {"w": 1}, {"h": 24}, {"d": 366}]), "how": "add"}}
    if x < 0.55:
        p = gen.rand_point(rnd, m, wide=False, whole=True, allow24=False, years=yrs, zones=[(0, 0)])
        p = dict(p, prec="hms", mi=max(p["mi"], 0), ss=max(p["ss"], 0))
        return {"op": "Do", "drv": "c05", "case": {"mode": sp, "p": p, "d": rnd.choice([{"y": 1}, {"y": -1}, {"mo": 1}, {"mo": -1}, {"y": 4}, {"mo": 12}]), "how": "add"}}
    if x < 0.8:
        a = gen.rand_point(rnd, m, wide=False, whole=True, allow24=False, years=yrs, zones=[(0, 0), (1, 0)])
        b = gen.rand_point(rnd, m, wide=False, whole=True, allow24=False, years=yrs, zones=[(0, 0), (-3, -30)])
        for r in (a, b):
            r.update(prec="hms", mi=max(r["mi"], 0), ss=max(r["ss"], 0))
        return {"op": "Do", "drv": "c04", "case": {"mode": sp, "a": a, "b": b}}
    p = gen.rand_point(rnd, m, wide=False, whole=True, allow24=False, years=yrs, zones=[(0, 0)])
    return {"op": "Do", "drv": "c03", "case": {"kind": "conv", "mode": sp, "p": dict(p, prec="hms", mi=max(p["mi"], 0), ss=max(p["ss"], 0))}}


def expand(job):
    k = job["kind"]
    if k == "hists":
        for h in job["hists"]:
            yield {"hist": h}
    elif k == "random":
        rnd = random.Random(job["seed"])
        for _ in range(job["n"]):
            hist = []
            sp = "gregorian"
            for _s in range(job["len"]):
                x = rnd.random()
                if x < 0.25:
                    sp = rnd.choice(SPELLINGS + [s.upper() for s in SPELLINGS[:2]])
                    hist.append({"op": "SetMode", "sp": sp})
                elif x < 0.7:
                    hist.append(rand_query(rnd))
                else:
                    hist.append(rand_do(rnd, sp.lower()))
            yield {"hist": hist}
    else:
        raise ValueError(k)


def jobs(tier, seed):
    import tempfile, shutil
    scratch = tempfile.mkdtemp(prefix="isodt_gen_")
    try:
        cfgs = ["Gen_C15.cfg", "Gen_C19.cfg"] if tier == "quick" else ["Gen_C15.cfg", "Gen_C15_deep.cfg", "Gen_C19.cfg", "Gen_C19_deep.cfg"]
        hists = []
        for cfg in cfgs:
            r = tlc.model_check("MC_C15.tla", cfg, scratch, workers=4)
            hists += tlc.gen_lines(r["out"])
    finally:
        shutil.rmtree(scratch, ignore_errors=True)
    if len(hists) < 1000:
        raise tlc.MachineryError("TLC generated only %d histories" % len(hists))
    out = []
    nchunk = 8
    step = len(hists) // nchunk + 1
    for i in range(nchunk):
        out.append({"kind": "hists", "hists": hists[i * step:(i + 1) * step]})
    if tier == "quick":
        out += [{"kind": "random", "n": 12, "len": 150, "seed": seed * 100 + j} for j in range(8)]
    else:
        out += [{"kind": "random", "n": 60, "len": 400, "seed": seed * 1000 + j} for j in range(32)]
    return out
