"""C13: recurrence queries against the iterated series.
Case: {"mode", "rec": recurrence description, "seed": int}  (probes are derived from the iterated points)"""
import random

from harness import gen
from harness.common import MEANING, NOTP, Duration, TimeZone, outcome, proj_tp, set_mode
from harness.drivers import recur

PROP = "C13"


def _q(rec, cid, q, p, fn, i=0):
    st, v = outcome(fn)
    base = dict(q=q, p=proj_tp(p) if p is not None else dict(NOTP), i=i)
    if st == "err":
        if q == "getitem" and isinstance(v, IndexError):
            rec.ev("Query", cid, ok=True, cls="", res=False, found=False, r=dict(NOTP), **base)
        else:
            rec.ev("Query", cid, ok=False, cls=type(v).__name__, res=False, found=False, r=dict(NOTP), **base)
        return
    if q == "is_valid":
        rec.ev("Query", cid, ok=True, cls="", res=bool(v), found=False, r=dict(NOTP), **base)
    else:
        rec.ev("Query", cid, ok=True, cls="", res=False, found=v is not None, r=proj_tp(v), **base)


def run_case(case, rec, cid):
    set_mode(case["mode"])
    rec.begin(cid)
    desc = case["rec"]
    rnd = random.Random(case["seed"])
    r = recur.build(desc)
    if case.get("twin"):
        # first, in the same process: EQUAL recurrences (same instants, same interval) whose anchor is written differently - another
        # offset, another date representation - are indexed and queried; with a month/year interval their members differ from r's
        from harness.common import TimeRecurrence, mk_dur, mk_tp, respellings
        for q in respellings(mk_tp(desc["a"]), rnd):
            try:
                kw = dict(start_point=q) if desc["fmt"] == 3 else dict(end_point=q)
                tw = TimeRecurrence(repetitions=desc["n"] or None, duration=mk_dur(desc["d"]), **kw)
                hash(tw), tw == r
                for i in range(3):
                    try:
                        tw[i]
                    except IndexError:
                        pass
                tw.get_is_valid(q), tw.get_next(q), tw.get_prev(q)
                if desc["fmt"] == 3:
                    tw.get_first_after(q)
            except Exception:  # noqa: BLE001  (whatever the twins do is not what this case judges)
                pass
    if recur.known_class(desc) or case.get("given"):
        # the iteration of this class is a recorded C12 finding: C13 speaks about what iteration yields, so the series is
        # handed to the specification as given and only the queries are judged
        pts, complete = recur.given(rec, cid, desc, r)
    else:
        pts, complete = recur.iterate(rec, cid, desc, r)
    if not pts:
        return True
    exact = desc["fmt"] == 1 or recur.is_exact(desc["d"])
    forward = not (desc["fmt"] == 4 and desc["n"] == 0)
    lo, hi = (pts[0], pts[-1]) if forward else (pts[-1], pts[0])
    one = Duration(seconds=1)
    probes = []
    for p in pts:
        probes.append(("member", p))
        z = rnd.choice([(0, 0), (1, 0), (-3, -30), (5, 45), (-11, 0)])
        probes.append(("member", p.to_time_zone(TimeZone(hours=z[0], minutes=z[1]))))
        probes.append(("member", rnd.choice([p.to_week_date, p.to_ordinal_date, p.to_calendar_date])()))
        for m24 in _as_2400(p, rnd):
            probes.append(("member", m24))      # the same instant written as 24:00 of the previous day
        if not float(p.second_of_minute).is_integer():
            probes.append(("near", p + Duration(seconds=0.5)))
            probes.append(("near", p - Duration(seconds=0.75)))
            continue
        kw = dict(year=p.year, hour_of_day=int(p.hour_of_day), minute_of_hour=int(p.minute_of_hour), second_of_minute=int(p.second_of_minute))
        if p.get_is_calendar_date():
            kw.update(month_of_year=p.month_of_year, day_of_month=p.day_of_month)
        elif p.get_is_ordinal_date():
            kw.update(day_of_year=p.day_of_year)
        else:
            kw.update(week_of_year=p.week_of_year, day_of_week=p.day_of_week)
        zo = rnd.choice([(1, 0), (-1, 0), (0, 30), (5, 45)])
        from harness.common import TimePoint as _TP
        probes.append(("near", _TP(time_zone_hour=p.time_zone.hours + zo[0], time_zone_minute=(abs(p.time_zone.minutes) + zo[1]) % 60 * (1 if p.time_zone.hours + zo[0] >= 0 else -1), **kw)))
        probes.append(("near", p + one))
        probes.append(("near", p - one))
    # outside the series: only where the truth is known from the recorded points
    if forward:
        probes.append(("before", lo - Duration(days=1)))
        if complete:
            probes.append(("after", hi + Duration(hours=1)))
            probes.append(("after", hi + Duration(days=400)))
    else:
        probes.append(("after", hi + Duration(days=1)))
    for kind, p in probes:
        inside = lo <= p <= hi
        if inside or complete or (forward and kind == "before") or (not forward and kind == "after"):
            _q(rec, cid, "is_valid", p, lambda p=p: r.get_is_valid(p))
    for i in range(len(pts) + 2):
        _q(rec, cid, "getitem", None, lambda i=i: r[i], i=i)
    for kind, p in (probes if exact else [("member", p) for p in pts]):
        # a month/year interval depends on how the date is written, so neighbours are asked of the iterated points themselves
        if kind != "member":
            continue
        if forward or exact:
            _q(rec, cid, "next", p, lambda p=p: r.get_next(p))
        if (not forward) or exact:
            _q(rec, cid, "prev", p, lambda p=p: r.get_prev(p))
    if forward:
        for kind, p in probes:
            whole = float(p.second_of_minute).is_integer() and p._second_of_minute is not None
            if whole and (complete or p < hi):
                _q(rec, cid, "first_after", p, lambda p=p: r.get_first_after(p))
    again = recur.take(r, len(pts))
    for i, q in enumerate(again):
        _q(rec, cid, "getitem", None, lambda q=q: q, i=i)          # second iteration, point by point, against the first
    if len(again) != len(pts):
        rec.ev("Raised", cid, what="second iteration of the same recurrence yields another number of points", cls="Reiteration", ve=False)
    if case.get("win") and desc.get("via") != "parse":
        _window(rec, cid, desc, r, pts, complete, forward, rnd)
    return True


def _window(rec, cid, desc, r, pts, complete, forward, rnd):
    """Beyond C13's quantifier: the same recurrence with a min_point / max_point window (constructor keywords)."""
    from harness.common import TimeRecurrence
    lo_first = rnd.random() < 0.5
    a, b = sorted(rnd.sample(range(len(pts)), 2)) if len(pts) >= 2 else (0, 0)
    if not forward:
        a, b = b, a          # pts run backwards in time
    shift = lambda p: p + Duration(seconds=rnd.choice([0, 0, 1, -1, 3600]))
    mn = shift(pts[a]) if rnd.random() < 0.7 else None
    mx = shift(pts[b]) if (rnd.random() < 0.7 or mn is None) else None
    if lo_first and mn is not None and rnd.random() < 0.4:
        mn = shift((pts[0] if forward else pts[-1]) - Duration(days=1))      # a window that opens before the series
    kw = dict(repetitions=r.repetitions, start_point=r.start_point if desc["fmt"] != 4 else None,
              duration=r.duration if desc["fmt"] != 1 else None,
              end_point=(r.end_point if desc["fmt"] == 4 else (mk_second(desc) if desc["fmt"] == 1 else None)),
              min_point=mn, max_point=mx)
    limit = len(pts) + 2

    def go():
        r2 = TimeRecurrence(**kw)
        out, wcomplete = [], True
        for q in r2:
            out.append(q)
            if len(out) >= limit:
                wcomplete = False
                break
        valid = [bool(r2.get_is_valid(p)) for p in pts]
        items = [r2[j] for j in range(len(out))]
        return out, wcomplete, valid, items
    st, v = outcome(go)
    base = dict(base=[proj_tp(p) for p in pts], complete=bool(complete), forward=bool(forward), hasMin=mn is not None, min=proj_tp(mn),
                hasMax=mx is not None, max=proj_tp(mx))
    if st == "err":
        rec.ev("Window", cid, ok=False, cls=type(v).__name__, pts=[], wcomplete=True, valid=[], items=[], **base)
    else:
        out, wcomplete, valid, items = v
        rec.ev("Window", cid, ok=True, cls="", pts=[proj_tp(p) for p in out], wcomplete=wcomplete, valid=valid,
               items=[proj_tp(p) for p in items], **base)


def mk_second(desc):
    from harness.common import mk_tp
    return mk_tp(desc["s"])


def _as_2400(p, rnd):
    """Spellings of p's instant as 24:00 of the previous day: in p's own zone when p is at local midnight, and in the zone
    where p's instant is local midnight (whole-minute instants only)."""
    from harness.common import TimePoint as _TP
    out = []
    cands = [p]
    if float(p.second_of_minute) == 0 and float(p.minute_of_hour).is_integer():
        u = p.to_utc()
        h, mi = int(u.hour_of_day), int(u.minute_of_hour)
        if (h or mi) and rnd.random() < 0.5:
            cands.append(p.to_time_zone(TimeZone(hours=-h, minutes=-mi)))
    for c in cands:
        if int(c.hour_of_day) == 0 and float(c.minute_of_hour) == 0 and float(c.second_of_minute) == 0:
            prev = c - Duration(days=1)
            kw = dict(year=prev.year, hour_of_day=24, minute_of_hour=0, second_of_minute=0,
                      time_zone_hour=prev.time_zone.hours, time_zone_minute=prev.time_zone.minutes)
            if prev.get_is_calendar_date():
                kw.update(month_of_year=prev.month_of_year, day_of_month=prev.day_of_month)
            elif prev.get_is_ordinal_date():
                kw.update(day_of_year=prev.day_of_year)
            else:
                kw.update(week_of_year=prev.week_of_year, day_of_week=prev.day_of_week)
            out.append(_TP(**kw))
    return out


def classify(case, rej, events):
    if rej["op"] in ("IterNext", "IterStop") and rej["clause"].startswith("known:"):
        return recur.known_class(case["rec"])
    return None


def expand(job):
    rnd = random.Random(job["seed"])
    for _ in range(job["n"]):
        sp = gen.spelling(rnd)
        m = MEANING[sp]
        desc = recur.rand_recurrence(rnd, m, whole_anchor=True, maxn=rnd.choice([5, 6, 8]))
        while recur.float_class(desc):     # float accumulation in the iteration itself: C12's business (known finding there)
            desc = recur.rand_recurrence(rnd, m, whole_anchor=True, maxn=rnd.choice([5, 6, 8]))
        rnd2 = random.Random(job["seed"] * 7919 + _)      # a stream of its own: the cases drawn from `rnd` stay what they were
        if rnd2.random() < 0.25 and desc["fmt"] == 3 and desc["a"]["prec"] == "hms" and not desc["a"].get("dec"):
            # month-end and leap-day starts with a month / year interval: every step clamps, so the i-th member is the
            # i-th *iterated* point and not start + i * interval (31 Jan, 28 Feb, 28 Mar ... ; 29 Feb, 28 Feb, 28 Feb ...)
            if m == "gregorian" and rnd2.random() < 0.4:
                desc["a"] = dict(desc["a"], rep="cal", y=rnd2.choice([1996, 2000, 2004, 2024]), a=2, b=29)
                desc["d"] = {"y": 1}
            else:
                desc["a"] = dict(desc["a"], rep="cal", a=rnd2.choice([1, 3, 5, 8, 10]), b=30 if m == "360day" else 31)
                desc["d"] = {"mo": 1}
            desc["n"] = rnd2.choice([4, 5, 6])
        if rnd.random() < 0.15 and desc["a"]["prec"] == "hms" and not desc["a"].get("dec") and desc["fmt"] != 1:
            # anchors at local midnight (a third of them in UTC): members then have a 24:00 spelling in their own zone
            desc["a"] = dict(desc["a"], hh=0, mi=0, ss=0)
            if rnd.random() < 0.4:
                desc["a"].update(zh=0, zm=0)
        if rnd.random() < 0.2 and desc["fmt"] == 3 and desc["a"]["prec"] == "hms" and recur.is_exact(desc["d"]) \
                and not any(desc["d"].get(k_) for k_ in ("mi", "s")) and any(desc["d"].values()):
            desc["a"] = dict(desc["a"], dec=rnd.choice(["5", "75", "25"]))      # dyadic fraction: float arithmetic stays exact
        twin = desc["fmt"] != 1 and desc["a"]["prec"] == "hms" and not desc["a"].get("dec") and desc["a"]["hh"] != 24 and rnd.random() < 0.3
        if desc["fmt"] != 1 and rnd.random() < 0.12:
            desc["dvia"] = "arith"       # the interval is the result of Duration arithmetic on operands used before
        if rnd.random() < 0.06:
            desc["pre"] = "overlap"      # earlier, overlapping passes over the same object
        case = {"mode": sp, "rec": desc, "seed": rnd.randrange(10 ** 9), "win": rnd.random() < 0.5}
        if twin:
            case["twin"] = True
        if rnd.random() < 0.08 and desc["fmt"] == 3 and not recur.is_exact(desc["d"]) and desc["a"]["prec"] == "hms" and not desc["a"].get("dec"):
            # a 24:00 start with a month/year interval: which of the two readings iteration follows is not fixed, so the series is
            # taken as given; the queries and a second iteration must agree with it
            case["rec"] = dict(desc, a=dict(desc["a"], hh=24, mi=0, ss=0))
            case["given"] = True
            case["win"] = False
        yield case


def jobs(tier, seed):
    if tier == "quick":
        return [{"n": 60, "seed": seed * 100 + j} for j in range(16)]
    return [{"n": 900, "seed": seed * 1000 + j} for j in range(32)]
