"""C14: recurrences as values - shifting, equality/hash, text round trip.
Case: {"mode", "rec": description, "kind": "shift", "d": duration, "how": "add"|"radd"|"sub"}
    | {"mode", "rec", "kind": "eq", "diff": "none"|"n"|"start"|"end"|"interval"|"respell", "seed"}
    | {"mode", "rec", "kind": "text"}"""
import copy
import random

from harness import gen
from harness.common import MEANING, mk_dur, outcome, proj_dur, proj_rec, proj_tp, set_mode
from harness.drivers import recur
from harness.drivers.c02 import respell

PROP = "C14"


def _pts(r, k=8):
    return [proj_tp(p) for p in recur.take(r, k)]


def _hms(r):
    """whole-second anchors only: decimal forms belong to the float findings of C02/C12."""
    r = dict(r)
    if r["prec"] != "hms":
        r.update(prec="hms", mi=max(r["mi"], 0), ss=max(r["ss"], 0))
    return r


def perturb(rnd, m, desc, diff):
    d2 = copy.deepcopy(desc)
    single = desc["n"] == 1 or (desc["fmt"] != 1 and recur.is_zero_interval(desc["d"]))
    if single and diff in ("interval", "n"):
        return None      # a single-point recurrence has no interval; n is forced to 1 by a zero interval
    if diff == "none":
        return d2
    if diff == "n":
        d2["n"] = desc["n"] + 1 if desc["n"] else 3
        return d2
    if diff == "decimal":
        # the same interval written with a decimal hour and with whole minutes (1,1 h = 66 min): whether the two recurrences
        # are == is float rounding, but if they are they must hash equally
        if desc["fmt"] == 1:
            return None
        whole, tenths = rnd.randint(0, 30), rnd.choice([1, 2, 3, 4, 6, 7, 8, 9, 5])
        desc["d"] = {"h": whole + tenths / 10.0}
        d2["d"] = {"mi": whole * 60 + tenths * 6}
        return d2
    if diff == "interval":
        if desc["fmt"] != 1 and recur.is_exact(desc["d"]) and "w" not in desc["d"] and rnd.random() < 0.2:
            base = dict(desc["d"])
            base["s"] = base.get("s", 0) + rnd.choice([1e-07, 3e-07, -1e-07])      # intervals a fraction of a microsecond apart are different
            d2["d"] = base
            return d2
        if desc["fmt"] == 1:
            from harness.drivers.recur import _same_zone_shift
            d2["s"] = _same_zone_shift(m, desc["s"], rnd.choice([1, 60, 3600]))
        else:
            k = rnd.choice(["d", "h", "s"] + (["mo"] if not recur.is_exact(desc["d"]) else []))
            base = {kk: vv for kk, vv in desc["d"].items() if kk != "w"}
            if "w" in desc["d"]:
                base["d"] = 7 * desc["d"]["w"]
            base[k] = base.get(k, 0) + 1
            d2["d"] = base
        return d2
    if diff in ("start", "end"):      # move the anchor (and the second point with it, so the interval stays)
        from harness.drivers.recur import _same_zone_shift
        sh = rnd.choice([1, 3600, 86400])
        a = dict(desc["a"])
        if a["prec"] != "hms" or "dec" in a:
            return None
        d2["a"] = _same_zone_shift(m, a, sh)
        if desc["fmt"] == 1:
            d2["s"] = _same_zone_shift(m, desc["s"], sh)
        return d2
    if diff == "respell":
        a = dict(desc["a"])
        if a["prec"] != "hms" or "dec" in a:
            return None
        exact = desc["fmt"] == 1 or recur.is_exact(desc["d"])
        if exact and (a["hh"], a["mi"], a["ss"]) == (0, 0, 0) and rnd.random() < 0.6:
            d2["a"] = recur.as_2400(m, a)         # the same anchor written as 24:00 of the previous day, same offset
            return d2
        d2["a"] = _hms(respell(rnd, m, a))
        if d2["a"]["hh"] == 24 and not exact:
            return None      # month/year stepping from a 24:00 anchor admits two readings (C05): not demanded to agree
        if desc["fmt"] == 1:
            d2["s"] = _hms(respell(rnd, m, desc["s"]))
            if desc["s"].get("dec"):
                if d2["s"]["hh"] == 24:
                    return None
                d2["s"]["dec"] = desc["s"]["dec"]        # the fraction of the second is part of the instant
        elif recur.is_exact(desc["d"]) and "w" not in desc["d"]:
            d = desc["d"]
            d2["d"] = {"s": d.get("d", 0) * 86400 + d.get("h", 0) * 3600 + d.get("mi", 0) * 60 + d.get("s", 0)}
        return d2
    raise ValueError(diff)


def run_case(case, rec, cid):
    set_mode(case["mode"])
    rec.begin(cid)
    desc = case["rec"]
    m = MEANING[case["mode"]]
    r = recur.build(desc)
    kind = case["kind"]
    if kind == "shift":
        pts, complete = recur.given(rec, cid, desc, r) if recur.known_class(desc) else recur.iterate(rec, cid, desc, r)
        d = mk_dur(case["d"])
        how = case["how"]

        def f():
            hash(r)                    # (r may have been a dict key / set member before it is shifted)
            if how == "add":
                r2 = r + d
            elif how == "radd":
                r2 = d + r
            else:
                r2 = r - mk_dur(gen.neg_dur(case["d"]))
            # the recurrence written with the moved anchor(s): same n and interval
            from harness.common import TimeRecurrence as _TR, mk_tp as _mk
            n_ = desc["n"] or None
            if desc["fmt"] == 1:
                r3 = _TR(repetitions=n_, start_point=_mk(desc["a"]) + d, end_point=_mk(desc["s"]) + d)
            elif desc["fmt"] == 3:
                r3 = _TR(repetitions=n_, start_point=_mk(desc["a"]) + d, duration=mk_dur(desc["d"]))
            else:
                r3 = _TR(repetitions=n_, duration=mk_dur(desc["d"]), end_point=_mk(desc["a"]) + d)
            ids = {}
            return dict(r2=proj_rec(r2), pts2=_pts(r2, len(pts)), eqback=bool((r + d) - d == r), eqmoved=bool(r2 == r3),
                        hmoved=ids.setdefault(hash(r2), 0) == ids.setdefault(hash(r3), len(ids)), pts3=_pts(r3, len(pts)))
        st, v = outcome(f)
        if st == "ok":
            rec.ev("Shift", cid, how=how, d=proj_dur(d), r=proj_rec(r), ok=True, cls="", **v)
        else:
            rec.ev("Shift", cid, how=how, d=proj_dur(d), r=proj_rec(r), ok=False, cls=type(v).__name__, r2=proj_rec(r),
                   pts2=[], eqback=False, eqmoved=False, hmoved=False, pts3=[])
        return True
    if kind == "eq":
        rnd = random.Random(case["seed"])
        d2 = perturb(rnd, m, desc, case["diff"])
        if d2 is None:
            return False
        exact = (desc["fmt"] == 1 or recur.is_exact(desc["d"])) and case["diff"] != "decimal"

        def g():
            r2 = recur.build(d2)
            ids = {}
            h1, h2 = ids.setdefault(hash(r), len(ids)), ids.setdefault(hash(r2), len(ids))
            if case.get("noiter"):
                return dict(eq=bool(r == r2), ne=bool(r != r2), h1=h1, h2=h2, p1=[], p2=[])
            return dict(eq=bool(r == r2), ne=bool(r != r2), h1=h1, h2=h2, p1=_pts(r), p2=_pts(r2))
        st, v = outcome(g)
        if st == "ok":
            rec.ev("RecEq", cid, diff=case["diff"], exact=exact, ok=True, cls="", **v)
        else:
            rec.ev("RecEq", cid, diff=case["diff"], exact=exact, ok=False, cls=type(v).__name__, eq=False, ne=False, h1=0, h2=0,
                   p1=[], p2=[])
        return True
    if kind == "text":
        def t():
            if case.get("zfmt"):
                # points that carry a "...Z" dump format (the parser's dump_format option): their text is the UTC clock reading
                pz = recur.Z_PARSERS[case["zfmt"] - 1]
                rz = pz.parse(recur.rec_text(desc))
                s = str(rz)
                r2 = pz.parse(s)
                return dict(eq=bool(r2 == rz), strfix=str(r2) == s, p1=_pts(rz), p2=_pts(r2))
            s = str(r)
            r2 = recur._PARSER.parse(s)
            if case.get("noiter"):
                return dict(eq=bool(r2 == r) and r2.duration == r.duration and r2.repetitions == r.repetitions, strfix=str(r2) == s, p1=[], p2=[])
            return dict(eq=bool(r2 == r), strfix=str(r2) == s, p1=_pts(r), p2=_pts(r2))
        st, v = outcome(t)
        if st == "ok":
            rec.ev("RecText", cid, ok=True, cls="", byinst=bool(case.get("zfmt")), **v)
        else:
            rec.ev("RecText", cid, ok=False, cls=type(v).__name__, eq=False, strfix=False, p1=[], p2=[], byinst=False)
        return True
    raise ValueError(kind)


def classify(case, rej, events):
    if rej["op"] in ("IterNext", "IterStop") and rej["clause"].startswith("known:"):
        return recur.known_class(case["rec"])
    return None


SHIFTS = [{"d": 1}, {"h": 1}, {"s": 1}, {"w": 1}, {"d": 1, "h": 12}, {"mi": 90}, {"d": 365}, {"h": 0.5}, {"d": 31, "s": 1}]


def expand(job):
    rnd = random.Random(job["seed"])
    for _ in range(job["n"]):
        sp = gen.spelling(rnd)
        m = MEANING[sp]
        desc = recur.rand_recurrence(rnd, m, whole_anchor=True, maxn=rnd.choice([1, 3, 5]), whole_anchor_only=False)
        while recur.known_class(desc) or recur.float_class(desc):
            desc = recur.rand_recurrence(rnd, m, whole_anchor=True, maxn=rnd.choice([1, 3, 5]), whole_anchor_only=False)
        desc["a"] = _hms(desc["a"])
        if rnd.random() < 0.12 and desc["fmt"] != 1 and not desc["a"].get("dec"):
            desc["a"] = dict(desc["a"], hh=0, mi=0, ss=0)      # anchors at local midnight (half of them in UTC): they have a 24:00 spelling
            if rnd.random() < 0.5:
                desc["a"].update(zh=0, zm=0)
        x = rnd.random()
        if 0.45 <= x < 0.6:      # equality of end-anchored month/year recurrences (iteration of that class is C12's finding)
            dk = recur.rand_recurrence(rnd, m, exact=False, bounded=True, fmt=4, whole_anchor=True, maxn=3)
            dk["a"] = _hms(dk["a"])
            yield {"mode": sp, "rec": dk, "kind": "eq", "diff": rnd.choice(["end", "n", "interval", "none"]), "seed": rnd.randrange(10 ** 9), "noiter": True}
            continue
        if x < 0.07:
            # shifting an end-anchored month/year recurrence (its iteration is C12's finding; the shift must still move the end)
            desc = recur.rand_recurrence(rnd, m, exact=False, bounded=True, fmt=4, whole_anchor=True, maxn=4)
            desc["a"] = _hms(desc["a"])
            if recur.float_class(desc):
                continue
        if x < 0.45 and rnd.random() < 0.35 and desc["a"]["y"] > -9000 and desc["a"]["y"] < 9000 and not desc["a"].get("dec"):
            # a whole-day shift that lands the anchor EXACTLY on the last / first day of a year or on 29 February / 1 March, one or
            # more years away (the carry through whole years must count each year's own length)
            from harness import refcal as R
            a_ = desc["a"]
            n0 = R.daynum(m, a_["y"], a_["a"], a_["b"]) if a_["rep"] == "cal" else R.year_start(m, a_["y"]) + a_["b"] - 1 if a_["rep"] == "ord" else None
            if n0 is not None:
                ty = a_["y"] + rnd.choice([1, 1, 2, 3, 4, 5, -1, -2, -4, 8])
                ty += (-ty) % 4 if rnd.random() < 0.7 else 0
                tgt = rnd.choice([R.year_start(m, ty + 1) - 1, R.year_start(m, ty + 1) - 1, R.year_start(m, ty + 1) - 1, R.year_start(m, ty), R.daynum(m, ty, 3, 1) - 1, R.daynum(m, ty, 3, 1)])
                if tgt != n0:
                    how = rnd.choice(["add", "radd", "sub"])
                    dd = tgt - n0 if how != "sub" else n0 - tgt
                    yield {"mode": sp, "rec": desc, "kind": "shift", "d": {"d": dd} if rnd.random() < 0.6 else {"d": dd - (1 if dd > 0 else -1), "h": 24 if dd > 0 else -24}, "how": how}
                    continue
        if x < 0.45:
            d = dict(rnd.choice(SHIFTS))
            if rnd.random() < 0.4:
                d = gen.neg_dur(d)
            yield {"mode": sp, "rec": desc, "kind": "shift", "d": d, "how": rnd.choice(["add", "radd", "sub"])}
        elif x < 0.85:
            diff = rnd.choice(["none", "n", "interval", "respell", "start" if desc["fmt"] != 4 else "end", "decimal"])
            yield {"mode": sp, "rec": desc, "kind": "eq", "diff": diff, "seed": rnd.randrange(10 ** 9)}
        else:
            pts_ = [desc["a"]] + ([desc["s"]] if desc["fmt"] == 1 else [])
            if any(p_.get("xd") or p_["y"] < 0 or p_["y"] > 9999 for p_ in pts_):
                continue
            if desc["fmt"] != 1 and desc["n"] != 1 and rnd.random() < 0.25:
                # intervals with decimals, down to ones Python prints in exponent notation: the text form must give them back
                # (iteration is not asked for: `noiter`)
                desc = dict(desc, d={rnd.choice(["h", "mi", "s"]): rnd.choice([0.5, 1.25, 0.0000125, 1e-07, 3e-10, 9.99999e-05, 0.1234567891234, 2.5e-06])})
                yield {"mode": sp, "rec": desc, "kind": "text", "noiter": True}
                continue
            case_ = {"mode": sp, "rec": desc, "kind": "text"}
            # (exact intervals only: month/year steps from the UTC spelling of the anchor are other dates than from the local one)
            if recur.parseable(desc) and desc["fmt"] != 1 and recur.is_exact(desc["d"]) and not desc["a"].get("dec") \
                    and 2 <= desc["a"]["y"] <= 9997 and rnd.random() < 0.3:       # (away from the years a "...Z" format cannot print)
                case_["zfmt"] = rnd.choice([1, 2, 3, 4, 5, 6])
                z_ = rnd.choice([(0, -30), (0, 45), (-3, -30), (5, 30), (0, 0), (1, 0)])
                case_["rec"] = dict(desc, a=dict(desc["a"], zh=z_[0], zm=z_[1]))
            yield case_


def jobs(tier, seed):
    if tier == "quick":
        return [{"n": 300, "seed": seed * 100 + j} for j in range(16)]
    return [{"n": 4000, "seed": seed * 1000 + j} for j in range(32)]
