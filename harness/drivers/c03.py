"""C03: calendar / ordinal / week conversions and calendar queries on the real helpers.
Cases: {"kind": "year", "mode": spelling, "y": Y} | {"kind": "range", "mode", "qs": [[a, b], ...]}
       | {"kind": "conv", "mode", "p": time point record}"""
import random

from harness.common import (D, I, MEANING, SPELLINGS, cur_mode, err_info, mk_tp, outcome, proj_tp, set_mode, tp_rec)
from harness import refcal as R

PROP = "C03"
QUICK_YEARS = (list(range(1996, 2061)) + [1600, 1700, 1800, 1900, 2100, 2200, 2300, 2400, 2800, 3000]
               + list(range(-401, 2)) [::7] + [-401, -400, -399, -101, -100, -99, -5, -4, -3, -2, -1, 0, 1, 2, 3, 4, 5]
               + [9998, 9999, 10000, 10001, 123456, -123456, 400000, -400000])


def expand(job):
    k = job["kind"]
    if k == "years":
        for sp in job["modes"]:
            for y in job["years"]:
                yield {"kind": "year", "mode": sp, "y": y}
    elif k == "ranges":
        rnd = random.Random(job["seed"])
        for sp in job["modes"]:
            qs = []
            for y in job["years"]:
                for a in range(y - 3, y + 4):
                    for b in range(y - 3, y + 4):
                        qs.append([a, b])
            for _ in range(job["nrandom"]):
                a = rnd.randint(-300000, 300000)
                qs.append([a, a + rnd.choice([0, 1, 3, 4, 99, 100, 101, 399, 400, 401, 1000, 12345, 250000])])
            for i in range(0, len(qs), 400):
                yield {"kind": "range", "mode": sp, "qs": qs[i:i + 400]}
    elif k == "convs":
        rnd = random.Random(job["seed"])
        for _ in range(job["n"]):
            sp = rnd.choice(SPELLINGS)
            m = MEANING[sp]
            y = rnd.choice([rnd.randint(-500, 2500), rnd.randint(1990, 2030), rnd.choice(QUICK_YEARS)])
            n = R.year_start(m, y) + rnd.choice([0, 1, 2, 3, 58, 59, 60, R.diy(m, y) - 3, R.diy(m, y) - 2,
                                                 R.diy(m, y) - 1, rnd.randrange(R.diy(m, y))])
            rep = rnd.choice(["cal", "ord", "week"])
            yy, a, b = R.date_of(m, rep, n)
            case = {"kind": "conv", "mode": sp,
                    "p": tp_rec(rep, yy, a, b, sod=rnd.choice([0, 1, 43200, 86399, 86400]),
                                zh=rnd.choice([0, 0, 5, -11]), zm=0)}
            if rnd.random() < 0.2 and rep in ("week", "cal"):
                # first week / first weekday / first month / first day of the month: fields a caller may leave to their defaults
                if rep == "week":
                    case["p"].update(a=rnd.choice([1, case["p"]["a"]]), b=rnd.choice([1, case["p"]["b"]]))
                    case["defaults"] = rnd.choice([["week_of_year"], ["day_of_week"]])      # (with both left out it is a calendar date)
                else:
                    case["p"].update(a=rnd.choice([1, case["p"]["a"]]), b=1)
                    case["defaults"] = rnd.choice([["day_of_month"], ["month_of_year", "day_of_month"]])
            yield case
    else:
        raise ValueError(k)


def _year_event(rec, cid, m, y):
    rows = []
    n0 = R.year_start(m, y)
    for k in range(1, R.diy(m, y) + 1):
        n = n0 + k - 1
        _, mo, d = R.from_daynum(m, n)
        wy, w, wd = R.to_week(m, n)
        c2o = D.get_ordinal_date_from_calendar_date(y, mo, d)
        c2w = D.get_week_date_from_calendar_date(y, mo, d)
        o2c = D.get_calendar_date_from_ordinal_date(y, k)
        o2w = D.get_week_date_from_ordinal_date(y, k)
        w2c = D.get_calendar_date_from_week_date(wy, w, wd)
        w2o = D.get_ordinal_date_from_week_date(wy, w, wd)
        rows.append([I(v) for v in (mo, d, k, wy, w, wd, *c2o, *c2w, *o2c, *o2w, *w2c, *w2o)])
    rec.ev("CalYear", cid, y=y, diy=I(D.get_days_in_year(y)), leap=bool(D.get_days_in_year(y) > D.get_days_in_year(2001)),
           wiy=I(D.get_weeks_in_year(y)),
           mlens=[I(D.get_days_in_month(mo, y)) for mo in range(1, 13)],
           wsc=[I(v) for v in D.get_calendar_date_week_date_start(y)],
           wso=[I(v) for v in D.get_ordinal_date_week_date_start(y)],
           since1=I(D.get_days_since_1_ad(y)), rows=rows)


def run_case(case, rec, cid):
    set_mode(case["mode"])
    rec.begin(cid)
    m = cur_mode()
    k = case["kind"]
    if k == "year":
        st, val = outcome(lambda: _year_event(rec, cid, m, case["y"]))
        if st == "err":   # totality: no exception for a valid date
            rec.ev("Raised", cid, what="calendar helper on a valid date of year %d" % case["y"], **err_info(val))
        return abs(case["y"]) % 100 == 0 or case["y"] % 4 == 0 or case["y"] <= 0 or case["y"] > 9999 \
            or R.weeks_in_year(m, case["y"]) == 53
    if k == "range":
        st, val = outcome(lambda: [[a, b, I(D.get_days_in_year_range(a, b))] for a, b in case["qs"]])
        if st == "err":
            rec.ev("Raised", cid, what="get_days_in_year_range", **err_info(val))
        else:
            rec.ev("CalRange", cid, qs=val)
        return True
    if k == "conv":
        def f():
            p = mk_tp(case["p"])
            if case.get("defaults"):
                # the same point built with the fields that equal their documented defaults LEFT OUT (week 1, weekday 1, month 1,
                # day 1): it must be the very same point
                from harness.common import TimePoint as _TP, tp_kwargs
                kw = tp_kwargs(case["p"])
                for name, dflt in (("week_of_year", 1), ("day_of_week", 1), ("month_of_year", 1), ("day_of_month", 1)):
                    if kw.get(name) == dflt and name in case["defaults"]:
                        del kw[name]
                p2 = _TP(**kw)
                if not (p2 == p and proj_tp(p2) == proj_tp(p)):
                    raise AssertionError("constructor defaults give another point")
            gc = p.get_calendar_date()
            # the civil day as the formatting layer sees it (whatever representation p is held in)
            sf = [int(p.strftime("%Y"))] + [int(x) for x in p.strftime("%m %d %j").split()] if 0 <= gc[0] <= 9999 and 0 <= p.year <= 9999 else []
            gw_ = p.get_week_date()
            if sf and 0 <= gw_[0] <= 9999:      # the week view through a reduced (year-week) dump format
                from metomi.isodatetime.dumpers import TimePointDumper
                s_ = TimePointDumper().dump(p, "CCYYWww")
                sf = sf + [int(s_[:4]), int(s_[5:7])]
            fb = []
            if cur_mode() == "gregorian" and 1 <= gc[0] <= 9999 and 1 <= p.year <= 9999 and int(p.hour_of_day) < 24:
                # beyond the listed properties: the command line's fallback to Python's own strftime for directives the library
                # refuses (%u %a ...) must name the same civil day
                from metomi.isodatetime.datetimeoper import DateTimeOperator
                st_, txt = outcome(lambda: DateTimeOperator().strftime(p, "%u %d %m %Y %a"))
                if st_ == "ok":
                    fb = [int(x) for x in txt.split()[:4]]
            return dict(fb=fb, p=proj_tp(p), tc=proj_tp(p.to_calendar_date()), to=proj_tp(p.to_ordinal_date()),
                        tw=proj_tp(p.to_week_date()), gc=[I(v) for v in gc],
                        go=[I(v) for v in p.get_ordinal_date()], gw=[I(v) for v in p.get_week_date()], sf=sf)
        st, val = outcome(f)
        if st == "err":
            rec.ev("Raised", cid, what="object-level conversion", **err_info(val))
        else:
            rec.ev("Conv", cid, **val)
        return True
    raise ValueError(k)


def jobs(tier, seed):
    modes4 = ["gregorian", "360day", "365day", "366day"]
    alias = ["360_day", "365_day", "366_day"]
    out = []
    if tier == "quick":
        ys = sorted(set(QUICK_YEARS))
        for sp in modes4:
            for i in range(0, len(ys), 16):
                out.append({"kind": "years", "modes": [sp], "years": ys[i:i + 16]})
        out.append({"kind": "years", "modes": alias, "years": [1999, 2000, 2004, 2020, 2026, 0, -1]})
        out.append({"kind": "ranges", "modes": modes4 + alias[:1], "years": [-400, -1, 0, 1, 1900, 2000, 2003, 9999], "nrandom": 300, "seed": seed})
        out.append({"kind": "convs", "n": 1500, "seed": seed})
    else:
        ys = list(range(2000, 2400)) + sorted(set(QUICK_YEARS) - set(range(2000, 2400)))
        for sp in modes4:
            for i in range(0, len(ys), 20):
                out.append({"kind": "years", "modes": [sp], "years": ys[i:i + 20]})
        out.append({"kind": "years", "modes": alias, "years": sorted(set(QUICK_YEARS))[::3]})
        for j in range(4):
            out.append({"kind": "ranges", "modes": modes4 + alias, "years": [-400, -100, -4, -1, 0, 1, 4, 100, 400, 1900, 2000, 2003, 2100, 9999],
                        "nrandom": 2000, "seed": seed * 7 + j})
        for j in range(8):
            out.append({"kind": "convs", "n": 5000, "seed": seed * 11 + j})
    return out
