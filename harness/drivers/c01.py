"""C01: TimePoint + exact Duration, in every operand order, on the real library.
Case: {"mode": spelling, "p": time point record, "d": duration description, "how": "add"|"radd"|"sub"}
  add : p + d        radd : d + p        sub : p - (-d)  (the operand handed to the library is the negated d)"""
import random

from harness import gen
from harness import refcal as R
from harness.common import DAY, MEANING, cur_mode, err_info, mk_dur, mk_dur_via, mk_tp, outcome, proj_dur, proj_tp, respellings, set_mode, tp_rec

PROP = "C01"


def run_case(case, rec, cid):
    set_mode(case["mode"])
    rec.begin(cid)
    p = mk_tp(case["p"])
    if case.get("chain"):
        # several durations applied in turn, each to the RESULT of the step before (decimal seconds that cancel along the way)
        q = p
        for dd in case["chain"]:
            d = mk_dur(dd)
            st, q2 = outcome(lambda: q + d)
            if st != "ok":
                rec.ev("Add", cid, how="add", p=proj_tp(q), d=proj_dur(d), q=proj_tp(q), ok=False, cls=type(q2).__name__)
                break
            rec.ev("Add", cid, how="add", p=proj_tp(q), d=proj_dur(d), q=proj_tp(q2), ok=True, cls="")
            q = q2
        return True
    nt = _one(case, rec, cid, p)
    if case.get("also") is not None:       # the same instant written differently, same duration, same process
        for q in respellings(p, random.Random(case["also"])):
            _one(case, rec, cid, q)
    return nt


def _one(case, rec, cid, p):
    d = mk_dur_via(case["d"], case.get("dvia"))
    if case.get("prearith"):
        # earlier in the same process: Duration arithmetic on an EQUAL duration (another object) - sums, differences, conversions
        from harness.common import Duration
        e = mk_dur(case["d"])
        x = Duration(days=1, hours=12)
        fs = (lambda: e + x, lambda: x + e, lambda: e - x, lambda: e * 2, lambda: e.to_days() + x, lambda: (e + x) + x)
        outcome(fs[case["prearith"] % len(fs)])       # (one of them: two could undo each other)
    how = case["how"]
    if how == "add":
        st, q = outcome(lambda: p + d)
    elif how == "radd":
        st, q = outcome(lambda: d + p)
    else:
        nd = mk_dur(gen.neg_dur(case["d"]))
        st, q = outcome(lambda: p - nd)
    pp = proj_tp(p)
    if st == "ok":
        qq = proj_tp(q)
        rec.ev("Add", cid, how=how, p=pp, d=proj_dur(mk_dur(case["d"])) if case.get("dvia") == "standardize" else proj_dur(d), q=qq, ok=True, cls="")
        return (qq["y"], qq["a"], qq["b"]) != (pp["y"], pp["a"], pp["b"])
    rec.ev("Add", cid, how=how, p=pp, d=proj_dur(d), q=pp, ok=False, cls=type(q).__name__)
    return True


def expand(job):
    k = job["kind"]
    rnd = random.Random(job.get("seed", 0))
    if k == "random":
        for _ in range(job["n"]):
            sp = gen.spelling(rnd)
            m = MEANING[sp]
            frac = rnd.random() < job.get("pfrac", 0.2)
            case = {"mode": sp, "p": gen.rand_point(rnd, m, whole=not frac), "d": gen.rand_exact_dur(rnd, frac=frac),
                    "how": rnd.choice(["add", "add", "radd", "sub"])}
            if not frac and case["p"]["hh"] < 24 and abs(case["p"]["y"]) < 900000 and rnd.random() < 0.15:
                case["also"] = rnd.randrange(10 ** 6)
            if not frac and rnd.random() < 0.25:
                case["dvia"] = rnd.choice(["parse", "floatdays", "standardize"])
            if rnd.random() < 0.1:
                case["prearith"] = rnd.randint(1, 6)
            if rnd.random() < 0.07:
                # exact multiples of the calendar's own cycles: 20871 weeks = 146097 days = 400 Gregorian years, 52/53 weeks, 365/366 days
                k_ = rnd.choice([1, 1, 2, -1])
                case["d"] = rnd.choice([{"w": 20871 * k_}, {"d": 146097 * k_}, {"w": 20870 * k_}, {"d": 146096 * k_, "h": 24 * k_}, {"w": 52 * k_},
                                        {"w": 53 * k_}, {"d": 365 * k_}, {"d": 366 * k_}, {"h": 24 * 146097 * k_}, {"d": 360 * 400 * k_}])
                if case["p"]["rep"] == "week" and k_ > 0 and rnd.random() < 0.5:
                    # ... and week counts that bring the week NUMBER itself to a whole multiple of the 400-year cycle
                    w_ = 20871 * k_ - case["p"]["a"]
                    case["d"] = rnd.choice([{"w": w_}, {"d": 7 * w_}, {"d": 7 * w_ - 1, "h": 24}])
                case.pop("dvia", None)
            yield case
    elif k == "cancel":
        for _ in range(job["n"]):
            sp = gen.spelling(rnd)
            p = gen.rand_point(rnd, MEANING[sp], wide=False, whole=True, allow24=False)
            a = rnd.randint(1, 9)
            b = rnd.randint(1, a)
            p = dict(p, prec="hms", mi=rnd.choice([0, 0, max(p["mi"], 0)]), ss=rnd.choice([0, 0, 59, 30]), dec=str(a))
            if rnd.random() < 0.5:
                p.update(hh=0, mi=0, ss=0)       # ... at the very start of a day (of a year, now and then)
            sg = rnd.choice([-1, -1, 1])
            chain = [{"s": sg * b / 10.0}, {"s": sg * (a - b) / 10.0}] if a != b else [{"s": sg * 0.1}] * a
            if rnd.random() < 0.3:
                chain = chain + [{"s": -sg * a / 10.0}]
            yield {"mode": sp, "p": p, "chain": chain, "d": {"s": 0}, "how": "add"}
    elif k == "sweep":      # every day of a year as a start, small steps in both directions
        sp, y = job["mode"], job["y"]
        m = MEANING[sp]
        n0 = R.year_start(m, y)
        reps = ["cal", "ord", "week"]
        for i in range(R.diy(m, y)):
            near_edge = i < 8 or i > R.diy(m, y) - 9 or 55 <= i <= 62
            for rep in (reps if (near_edge or job.get("allreps")) else [reps[i % 3]]):
                yy, a, b = R.date_of(m, rep, n0 + i)
                zh, zm = job.get("zone", (0, 0))
                for sod, d in ((86399, {"s": 1}), (0, {"s": -1}), (43200, {"d": 1}), (43200, {"d": -1}),
                               (0, {"w": 1}), (DAY if i % 5 == 0 else 3600, {"w": -1}), (82800, {"h": 1}), (0, {"mi": -1})):
                    yield {"mode": sp, "p": tp_rec(rep, yy, a, b, sod=sod, zh=zh, zm=zm, xd=2 if yy < 0 else 0), "d": d,
                           "how": "add" if (i + sod) % 3 else "sub"}
    elif k == "gen":       # (mode, point, duration) triples of MC_C01.tla's universe, emitted by TLC
        for t in job["tuples"]:
            mm, rep, y, a, b, sod, zh, zm, dd, hh, mi, ss = t
            d = {k_: v for k_, v in (("d", dd), ("h", hh), ("mi", mi), ("s", ss)) if v}
            yield {"mode": mm, "p": tp_rec(rep, y, a, b, sod=sod, zh=zh, zm=zm, xd=2 if y < 0 else 0), "d": d or {"s": 0},
                   "how": ["add", "radd", "sub"][(y + a + sod + dd) % 3]}
    elif k == "cases":
        for c in job["cases"]:
            yield c
    elif k == "land":
        # results that land EXACTLY on a boundary day (first / last day of each month, the days around the end of February,
        # the first and last day of the year) from a spread of distances, forwards and backwards, in all three representations
        sp, y = job["mode"], job["y"]
        m = MEANING[sp]
        n0 = R.year_start(m, y)
        targets = {n0, n0 + R.diy(m, y) - 1, n0 - 1, n0 + R.diy(m, y)}
        acc = 0
        for ml in R.mlens(m, y):
            targets |= {n0 + acc, n0 + acc - 1}
            acc += ml
        targets |= {n0 + 57, n0 + 58, n0 + 59, n0 + 60}
        for t in sorted(targets):
            for kdays in (1, 2, 27, 28, 29, 30, 31, 32, 58, 59, 60, 61, 89, 90, 365, 366, 367, 730, 731, 1461):
                for sg in (1, -1):
                    start = t - sg * kdays
                    rep = rnd.choice(["cal", "cal", "ord", "week"])
                    yy, a_, b_ = R.date_of(m, rep, start)
                    unit = rnd.choice(["d", "d", "h", "w"] if kdays % 7 == 0 else ["d", "d", "h"])
                    dd = {"d": sg * kdays} if unit == "d" else {"h": sg * kdays * 24} if unit == "h" else {"w": sg * kdays // 7}
                    sod = rnd.choice([0, 0, 43200, 86399, DAY])
                    yield {"mode": sp, "p": tp_rec(rep, yy, a_, b_, sod=sod, zh=rnd.choice([0, 5, -3]), zm=0, xd=2 if yy < 0 else 0), "d": dd,
                           "how": rnd.choice(["add", "radd", "sub"])}
    else:
        raise ValueError(k)


SWEEPS_Q = [("gregorian", 2003), ("gregorian", 2004), ("gregorian", 1900), ("gregorian", 0), ("360day", 2000),
            ("365_day", 2004), ("366day", 2003), ("gregorian", 2020)]
SWEEPS_T = SWEEPS_Q + [("gregorian", y) for y in (-1, 1, 1999, 2000, 2001, 2015, 2019, 2021, 2100, 9999, -400)] + \
    [(m, y) for m in ("360_day", "365day", "366_day") for y in (1999, 2001, 2004, 2020, 0)]


def gen_tuples(seed, limit):
    import shutil
    import tempfile
    from harness import tlc
    scratch = tempfile.mkdtemp(prefix="isodt_gen_")
    try:
        r = tlc.model_check("MC_C01.tla", "Gen_C01.cfg", scratch, workers=4)
        tuples = tlc.gen_lines(r["out"])
    finally:
        shutil.rmtree(scratch, ignore_errors=True)
    if len(tuples) < 50000:
        raise tlc.MachineryError("TLC generated only %d (point, duration) pairs" % len(tuples))
    if limit:
        random.Random(seed).shuffle(tuples)
        tuples = tuples[:limit]
    return tuples


def jobs(tier, seed):
    out = []
    tuples = gen_tuples(seed, 12000 if tier == "quick" else 0)
    step = len(tuples) // 8 + 1
    for i in range(8):
        out.append({"kind": "gen", "tuples": tuples[i * step:(i + 1) * step]})
    if tier == "quick":
        for i, (sp, y) in enumerate(SWEEPS_Q):
            out.append({"kind": "sweep", "mode": sp, "y": y, "zone": [(0, 0), (5, 30), (-3, -30)][i % 3]})
        for j in range(8):
            out.append({"kind": "random", "n": 1500, "seed": seed * 100 + j})
        out.append({"kind": "cancel", "n": 600, "seed": seed * 100 + 70})
        for i, (sp, y) in enumerate(SWEEPS_Q):
            out.append({"kind": "land", "mode": sp, "y": y, "seed": seed * 100 + 50 + i})
    else:
        for i, (sp, y) in enumerate(SWEEPS_T):
            out.append({"kind": "sweep", "mode": sp, "y": y, "allreps": True, "zone": [(0, 0), (5, 30), (-3, -30), (13, 45)][i % 4]})
        for j in range(48):
            out.append({"kind": "random", "n": 12000, "seed": seed * 1000 + j, "pfrac": 0.3})
        for j in range(4):
            out.append({"kind": "cancel", "n": 5000, "seed": seed * 1000 + 700 + j})
        for i, (sp, y) in enumerate(SWEEPS_T):
            out.append({"kind": "land", "mode": sp, "y": y, "seed": seed * 1000 + 500 + i})
    return out
