"""C06: re-expression in another UTC offset.
Case: {"mode", "p": tp, "zh", "zm", "via": "to_time_zone"|"to_utc"|"dump"}"""
import random

from harness import gen
from harness.common import MEANING, TimeZone, mk_tp, outcome, proj_dur, proj_tp, set_mode
from metomi.isodatetime.dumpers import TimePointDumper
from metomi.isodatetime.parsers import TimePointParser

PROP = "C06"
_PARSERS = {}


def zone_text(zh, zm, style):
    if zh == 0 and zm == 0 and style == "Z":
        return "Z"
    sign = "-" if (zh < 0 or zm < 0) else "+"
    if style == "hh":
        return "%s%02d" % (sign, abs(zh))
    if style == "hhmm":
        return "%s%02d%02d" % (sign, abs(zh), abs(zm))
    return "%s%02d:%02d" % (sign, abs(zh), abs(zm))


def run_case(case, rec, cid):
    set_mode(case["mode"])
    rec.begin(cid)
    p = mk_tp(case["p"])
    nt = _one(case, rec, cid, p)
    if case.get("also") is not None:       # the same instant written differently, re-zoned to the same offset in the same process
        import random
        from harness.common import respellings
        for q in respellings(p, random.Random(case["also"])):
            _one(case, rec, cid, q)
    return nt


def _one(case, rec, cid, p):
    zh, zm = case["zh"], case["zm"]
    via = case["via"]

    def f():
        if via == "to_local":
            from harness.drivers.c18 import with_zone
            q = with_zone(case["sys"], p.to_local_time_zone)
        elif via == "to_utc":
            q = p.to_utc()
        elif via == "to_time_zone":
            q = p.to_time_zone(TimeZone(hours=zh, minutes=zm))
        else:
            xd = case["p"].get("xd", 0)
            text = TimePointDumper(num_expanded_year_digits=xd).dump(p, case["fmt"])
            parser = _PARSERS.setdefault(xd, TimePointParser(num_expanded_year_digits=xd, assumed_time_zone=(77, 7)))
            q = parser.parse(text)
        return dict(q=proj_tp(q), eq=bool(q == p) and not bool(q != p), heq=hash(q) == hash(p), diff=proj_dur(q - p))
    st, v = outcome(f)
    pp = proj_tp(p)
    if st == "ok":
        rec.ev("Zone", cid, via=via, p=pp, zh=zh, zm=zm, ok=True, cls="", **v)
    else:
        rec.ev("Zone", cid, via=via, p=pp, zh=zh, zm=zm, ok=False, cls=type(v).__name__, q=pp, eq=False, heq=False,
               diff=proj_dur(None))
    return (zh, zm) != (pp["zh"], pp["zm"])


DATEFMT = {"cal": ["CCYY-MM-DD", "CCYYMMDD"], "ord": ["CCYY-DDD", "CCYYDDD"], "week": ["CCYY-Www-D", "CCYYWwwD"]}


def dump_case(rnd, sp, p, zh, zm):
    ext = rnd.random() < 0.5
    d = DATEFMT[p["rep"]][0 if ext else 1]
    if p.get("xd"):
        d = "+X" + d
    t = "Thh:mm:ss" if ext else "Thhmmss"
    if zh == 0 and zm == 0 and rnd.random() < 0.7:
        z = "Z"
    elif zm == 0 and rnd.random() < 0.4:
        z = zone_text(zh, zm, "hh")
    else:
        z = zone_text(zh, zm, "hh:mm" if ext else "hhmm")
    return {"mode": sp, "p": p, "zh": zh, "zm": zm, "via": "dump", "fmt": d + t + z}


def all_zones():
    out = []
    for zh in range(-99, 100):
        for zm in range(0, 60):
            out.append((zh, zm if zh >= 0 else -zm))
            if zh == 0 and zm:
                out.append((0, -zm))
    return out


def expand(job):
    rnd = random.Random(job["seed"])
    k = job["kind"]
    if k == "random":
        for _ in range(job["n"]):
            sp = gen.spelling(rnd)
            m = MEANING[sp]
            p = gen.rand_point(rnd, m, wide=rnd.random() < 0.2, whole=rnd.random() < 0.85, allow24=rnd.random() < 0.3)
            zh, zm = rnd.choice(gen.ZONES) if rnd.random() < 0.6 else rnd.choice(all_zones())
            x = rnd.random()
            if x < 0.08:
                off = rnd.choice([0, 60, -300, 330, -210, 765, -30, 30, 840, -720, rnd.randint(-1439, 1439)])
                # the offset in force: the daylight-saving one only when the zone has DST rules AND they apply now
                daylight, isdst = rnd.choice([(0, 0), (1, 0), (1, 1), (0, 1), (1, 0)])
                sysz = {"tz": -off * 60, "alt": -(off + 60) * 60, "daylight": daylight, "isdst": isdst}
                if daylight and isdst == 1:
                    off = off + 60
                lz = (off // 60, off % 60) if off >= 0 else (-((-off) // 60), -((-off) % 60))
                yield {"mode": sp, "p": p, "zh": lz[0], "zm": lz[1], "via": "to_local", "sys": sysz}
            elif x < 0.15:
                yield {"mode": sp, "p": p, "zh": 0, "zm": 0, "via": "to_utc"}
            elif x < 0.6 or "dec" in p or p["prec"] != "hms" or p["hh"] == 24:
                c_ = {"mode": sp, "p": p, "zh": zh, "zm": zm, "via": "to_time_zone"}
                if p["prec"] == "hms" and not p.get("dec") and p["hh"] < 24 and abs(p["y"]) < 900000 and rnd.random() < 0.1:
                    c_["also"] = rnd.randrange(10 ** 6)
                yield c_
            else:
                yield dump_case(rnd, sp, p, zh, zm)
    elif k == "allzones":      # every legal offset as a destination, from boundary points
        zs = all_zones()
        pts = []
        for sp in job["modes"]:
            m = MEANING[sp]
            pts += [(sp, gen.rand_point(rnd, m, wide=False, whole=True, allow24=False)) for _ in range(job["npoints"])]
        for i, (zh, zm) in enumerate(zs[job["lo"]:job["hi"]]):
            sp, p = pts[i % len(pts)]
            yield {"mode": sp, "p": p, "zh": zh, "zm": zm, "via": "to_time_zone"}
            if p["prec"] == "hms":
                yield dump_case(rnd, sp, p, zh, zm)
    else:
        raise ValueError(k)


def jobs(tier, seed):
    nz = len(all_zones())
    out = []
    if tier == "quick":
        for j in range(8):
            out.append({"kind": "random", "n": 1200, "seed": seed * 100 + j})
        step = nz // 8 + 1
        for j in range(8):
            out.append({"kind": "allzones", "modes": gen.MODES4, "npoints": 40, "lo": j * step, "hi": (j + 1) * step, "seed": seed * 10 + j})
    else:
        for j in range(32):
            out.append({"kind": "random", "n": 10000, "seed": seed * 1000 + j})
        step = nz // 16 + 1
        for r in range(4):
            for j in range(16):
                out.append({"kind": "allzones", "modes": gen.MODES4, "npoints": 200, "lo": j * step, "hi": (j + 1) * step,
                            "seed": seed * 10 + j + 100 * r})
    return out


def classify(case, rej, events):
    from harness.drivers.c02 import _inexact
    ev = rej["event"]
    if rej["clause"] in ("not-equal-to-original", "hash-differs-from-original") and _inexact(ev["p"], ev["q"]):
        return "decimal-hour-form-rezoned-by-non-quarter-hour"
    return None
