"""Shared machinery for the recurrence properties C12 (iteration), C13 (queries), C14 (values).
Recurrence description: {"fmt": 1|3|4, "n": repetitions (0 = unbounded), "a": anchor time point record
(the given start; the given end for fmt 4), "s": second point (fmt 1), "d": interval description (fmt 3, 4)}"""
from harness import gen
from harness import refcal as R
from harness.common import (DAY, MEANING, NOTP, Duration, TimeRecurrence, TimeZone, mk_dur, mk_tp, outcome, proj_dur,
                            proj_rec, proj_tp, tp_rec)
from metomi.isodatetime.parsers import DurationParser, TimePointParser, TimeRecurrenceParser

EXACT_IV = [{"h": 1}, {"h": 6}, {"d": 1}, {"w": 1}, {"d": 1, "h": 12}, {"mi": 90}, {"s": 1}, {"h": 24}, {"d": 30},
            {"d": 365}, {"w": 52}, {"s": 86399}, {"mi": 1}]
NOMINAL_IV = [{"mo": 1}, {"mo": 2}, {"y": 1}, {"mo": 1, "d": 2}, {"y": 1, "mo": 1}, {"y": 4}, {"mo": 13}, {"y": 1, "d": 1},
              {"mo": 1, "h": 12}, {"mo": 6}]
UNBOUNDED_TAKE = 12
_PARSER = TimeRecurrenceParser(TimePointParser(assumed_time_zone=(0, 0)), DurationParser())


def is_zero_interval(d):
    """An exact interval of zero length, however it is spelled (P0Y, PT0S, P1DT-24H)."""
    return not d.get("y") and not d.get("mo") and \
        d.get("w", 0) * 604800 + d.get("d", 0) * 86400 + d.get("h", 0) * 3600 + d.get("mi", 0) * 60 + d.get("s", 0) == 0


def is_exact(d):
    return not d.get("y") and not d.get("mo")


Z_PARSERS = [TimeRecurrenceParser(TimePointParser(assumed_time_zone=(0, 0), dump_format=f_), DurationParser())
             for f_ in ("CCYY-MM-DDThh:mm:ssZ", "CCYYMMDDThhmmssZ",
                        # ... or a fixed UTC offset written into the format (negative sub-hour ones included)
                        "CCYY-MM-DDThh:mm:ss-00:30", "CCYYMMDDThhmmss-0045", "CCYY-MM-DDThh:mm:ss+05:30", "CCYY-DDDThh:mm:ss-03:30")]
_PARSE_ALL = TimeRecurrenceParser(TimePointParser(num_expanded_year_digits=2, assumed_time_zone=(0, 0)), DurationParser())


def rec_text(desc):
    from harness import render
    head = "R%s/" % (desc["n"] or "")
    if desc["fmt"] == 1:
        return head + render.tp_record_text(desc["a"]) + "/" + render.tp_record_text(desc["s"])
    if desc["fmt"] == 3:
        return head + render.tp_record_text(desc["a"]) + "/" + render.dur_desc_text(desc["d"])
    return head + render.dur_desc_text(desc["d"]) + "/" + render.tp_record_text(desc["a"])


def parseable(desc):
    pts = [desc["a"]] + ([desc["s"]] if desc["fmt"] == 1 else [])
    dv = list(desc.get("d", {}).values())
    if any(v < 0 for v in dv) and any(v > 0 for v in dv):
        return False          # an interval of mixed signs has no text form
    return all(p["prec"] == "hms" and p["hh"] < 24 and p.get("xd", 0) in (0, 2) and len(p.get("dec") or "") <= 6
               and ((0 <= p["y"] <= 9999) if not p.get("xd") else abs(p["y"]) <= 999999) for p in pts)


def dur_by_arith(d):
    """The interval as the RESULT of Duration arithmetic on operands that have been used before (hashed, compared, measured):
    d = (d less one unit of one component) + (that unit)."""
    ks = [k for k, v in d.items() if isinstance(v, int) and v != 0]
    if not ks or any(not isinstance(v, int) for v in d.values()) or "w" in d:
        return mk_dur(d)
    k = ks[len(ks) // 2]
    sg = 1 if d[k] > 0 else -1
    d1 = {kk: vv for kk, vv in d.items() if kk != k or vv != sg}
    if k in d1:
        d1[k] = d[k] - sg
    p1, p2 = mk_dur(d1 or {"s": 0}), mk_dur({k: sg})
    for p in (p1, p2):
        hash(p), p == p2, bool(p), p.get_seconds(), p < p2
    return p1 + p2


def build(desc):
    if desc.get("via") == "parse":        # one parser object for the whole process, across calendar-mode switches
        return (_PARSE_ALL if desc["n"] % 2 else _PARSE_ALL.parse)(rec_text(desc))       # (calling the parser object is parse())
    n = desc["n"] or None
    a = mk_tp(desc["a"])
    mkd = dur_by_arith if desc.get("dvia") == "arith" else mk_dur
    if desc["fmt"] == 1:
        r = TimeRecurrence(repetitions=n, start_point=a, end_point=mk_tp(desc["s"]))
    elif desc["fmt"] == 3:
        r = TimeRecurrence(repetitions=n, start_point=a, duration=mkd(desc["d"]))
    else:
        r = TimeRecurrence(repetitions=n, duration=mkd(desc["d"]), end_point=a)
    if desc.get("pre") == "overlap":
        # earlier passes over the same object, two of them alive at once (nested loops, a suspended iterator, a look-ahead zip):
        # what a later pass yields must not depend on them
        from itertools import islice
        lim = (desc["n"] or 4) + 2
        it1 = iter(r)
        next(it1, None)
        list(islice(iter(r), lim))
        list(islice(it1, lim))
        for _p in islice(iter(r), 2):
            for _q in islice(iter(r), 3):
                pass
    return r


def inp_of(desc, r):
    return {"fmt": desc["fmt"], "n": desc["n"], "a": proj_tp(mk_tp(desc["a"])),
            "s": proj_tp(mk_tp(desc["s"])) if desc["fmt"] == 1 else dict(NOTP),
            "d": proj_dur(mk_dur(desc["d"])) if desc["fmt"] != 1 else proj_dur(None), "r": proj_rec(r)}


def iterate(rec, cid, desc, r):
    """Drive iter(r) one step at a time, one event per step. Returns the yielded TimePoints."""
    forward = not (desc["fmt"] == 4 and desc["n"] == 0)
    rec.ev("IterOpen", cid, inp=inp_of(desc, r), forward=forward)
    it = iter(r)
    limit = desc["n"] + 2 if desc["n"] else UNBOUNDED_TAKE
    pts = []
    for _ in range(limit):
        try:
            q = next(it)
        except StopIteration:
            rec.ev("IterStop", cid)
            return pts, True
        pts.append(q)
        rec.ev("IterNext", cid, q=proj_tp(q))
    rec.ev("IterAbandon", cid)
    return pts, False


def given(rec, cid, desc, r):
    """For recurrences whose ITERATION is a recorded C12 finding: hand the series to the specification as given (event
    IterGiven, not judged) so that what is stated RELATIVE to it - queries (C13), shifts and equality (C14) - is still judged."""
    forward = not (desc["fmt"] == 4 and desc["n"] == 0)
    pts, complete = [], True
    for q in r:
        pts.append(q)
        if len(pts) >= (desc["n"] + 2 if desc["n"] else UNBOUNDED_TAKE):
            complete = False
            break
    rec.ev("IterGiven", cid, inp=inp_of(desc, r), forward=forward, pts=[proj_tp(q) for q in pts], complete=complete)
    return pts, complete


def take(r, k):
    out = []
    for p in r:
        out.append(p)
        if len(out) >= k:
            break
    return out


def rand_recurrence(rnd, m, exact=None, bounded=None, fmt=None, whole_anchor=True, maxn=6, years=None, allow24=False,
                    whole_anchor_only=True):
    fmt = fmt or rnd.choice([1, 3, 3, 4, 4])
    a = gen.rand_point(rnd, m, wide=False, whole=whole_anchor, allow24=allow24, years=years, only_years=bool(years),
                       zones=[(0, 0), (0, 0), (1, 0), (-3, -30), (5, 30), (13, 45)])
    if a["prec"] != "hms" and rnd.random() < 0.7:
        a = dict(a, prec="hms", mi=max(a["mi"], 0), ss=max(a["ss"], 0))
        a.pop("dec", None)
    if bounded is None:
        bounded = rnd.random() < 0.7
    n = rnd.choice([1, 2, 2, 3, 4, 5, maxn]) if bounded else 0
    if exact is None:
        exact = rnd.random() < 0.6
    if rnd.random() < 0.07:
        d = dict(rnd.choice([{"s": 0}, {"s": 0}, {"d": 1, "h": -24}, {"h": 1, "mi": -60}, {"mi": 90, "h": -1, "s": -1800}]))
    else:
        d = dict(rnd.choice(EXACT_IV if exact else NOMINAL_IV))
    desc = {"fmt": fmt, "n": n, "a": a}
    if fmt == 1:
        # second point = start + an exact interval, possibly written in another offset
        from harness.drivers.c02 import shifted
        e = rnd.choice(EXACT_IV)
        secs = e.get("w", 0) * 7 * DAY + e.get("d", 0) * DAY + e.get("h", 0) * 3600 + e.get("mi", 0) * 60 + e.get("s", 0)
        base = dict(a)
        base.pop("dec", None)
        if base["prec"] != "hms":
            base = dict(base, prec="hms", mi=max(base["mi"], 0), ss=max(base["ss"], 0))
            desc["a"] = base
        desc["s"] = shifted(rnd, m, base, secs) if rnd.random() < 0.5 else _same_zone_shift(m, base, secs)
        if not whole_anchor_only and rnd.random() < 0.2 and desc["s"]["prec"] == "hms" and desc["s"]["hh"] < 24:
            # anchors a non-integral number of seconds apart (dyadic fractions: exact in binary floating point)
            desc["s"] = dict(desc["s"], dec=rnd.choice(["5", "25", "75"]))      # (the start stays whole: see float_class)
    else:
        desc["d"] = d
    return desc


def _same_zone_shift(m, r2, secs):
    n = {"cal": lambda r: R.daynum(m, r["y"], r["a"], r["b"]), "ord": lambda r: R.year_start(m, r["y"]) + r["a"] - 1,
         "week": lambda r: R.from_week(m, r["y"], r["a"], r["b"])}[r2["rep"]](r2)
    sod = r2["hh"] * 3600 + max(r2["mi"], 0) * 60 + max(r2["ss"], 0)
    n2, sod2 = divmod(n * DAY + sod + secs, DAY)
    y, a, b = R.date_of(m, r2["rep"], n2)
    return tp_rec(r2["rep"], y, a, b, sod=sod2, prec="hms", zh=r2["zh"], zm=r2["zm"], xd=r2.get("xd", 0))


def as_2400(m, r2):
    """A point record at local midnight written as 24:00 of the previous day (same representation and offset)."""
    n = {"cal": lambda r: R.daynum(m, r["y"], r["a"], r["b"]), "ord": lambda r: R.year_start(m, r["y"]) + r["a"] - 1,
         "week": lambda r: R.from_week(m, r["y"], r["a"], r["b"])}[r2["rep"]](r2)
    y, a, b = R.date_of(m, r2["rep"], n - 1)
    return tp_rec(r2["rep"], y, a, b, sod=DAY, prec="hms", zh=r2["zh"], zm=r2["zm"], xd=r2.get("xd", 0))


def float_class(desc):
    """Anchor in a decimal form with an exact interval finer than its last unit: the library computes in floats."""
    a, d = desc["a"], desc.get("d", {})
    return bool((a["prec"] == "h" and (d.get("mi") or d.get("s"))) or (a["prec"] == "hm" and d.get("s")) or a.get("dec"))


def known_class(desc):
    """Input classes of recorded findings (computed from the description only)."""
    if desc["fmt"] == 4 and desc["n"] >= 2 and not is_exact(desc.get("d", {})):
        return "bounded-duration/end-recurrence-with-month/year-interval"
    a, d = desc["a"], desc.get("d", {})
    finer = (a["prec"] == "h" and (d.get("mi") or d.get("s"))) or (a["prec"] == "hm" and d.get("s")) or a.get("dec")
    if desc["n"] >= 2 and finer:
        return "bounded-recurrence-from-decimal-form-anchor-with-finer-interval"
    return None
