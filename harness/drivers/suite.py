"""The repository's own test-suite under the tracer (harness/suite_tracer.py): every operation the 85 tests already
perform is validated against the specification, whatever the test itself asserts.
Case: {"kinds": "Add,SubTP,Cmp1"}"""
import json
import os
import subprocess
import tempfile

from harness import tlc
from harness.common import REPO

ROOT = os.path.dirname(os.path.dirname(os.path.dirname(os.path.abspath(__file__))))
KINDS = "Add,SubTP,Cmp1"
CASE_TIMEOUT = 900


def run_case(case, rec, cid):
    fd, path = tempfile.mkstemp(prefix="isodt_suite_", suffix=".json")
    os.close(fd)
    env = dict(os.environ, ISODATETIME_VERIF="1", ISODATETIME_VERIF_TRACE=path, ISODATETIME_VERIF_KINDS=case["kinds"],
               PYTHONPATH=ROOT, VERIF_REPO=REPO)
    try:
        p = subprocess.run(["/venv/bin/python", "-m", "pytest", "-q", "-p", "no:cacheprovider", "-p", "harness.suite_tracer",
                            "--timeout=900", "-x", "--deselect", "metomi/isodatetime/tests/test_main.py::test_pipe"],
                           cwd=REPO, env=env, capture_output=True, text=True)
        with open(path) as f:
            data = json.load(f)
    finally:
        os.unlink(path)
    if not data["events"]:
        raise tlc.MachineryError("the tracer recorded nothing from the test-suite:\n" + p.stdout[-500:])
    rec.ev("Begin", cid, cm="gregorian")
    for e in data["events"]:
        e["cid"] = cid
        rec.events.append(e)
    rec.ev("SuiteEnd", cid, passed=(data["exitstatus"] == 0), dropped=data["dropped"])
    return True


def expand(job):
    yield {"kinds": job["kinds"]}


def jobs(tier, seed):
    return [{"kinds": KINDS}]
