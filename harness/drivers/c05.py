"""C05: month / year arithmetic with clamping, alone and mixed with exact units.
Case: {"mode", "p": tp, "d": {y, mo, + exact units}, "how": "add"|"radd"|"sub"|"add_months"}"""
import random

from harness import gen
from harness import refcal as R
from harness.common import MEANING, mk_dur, mk_dur_via, mk_tp, outcome, proj_dur, proj_tp, set_mode, tp_rec

PROP = "C05"
MONTHS = [1, -1, 2, -2, 3, 11, -11, 12, -12, 13, -13, 23, 24, 25, -25, 6, -6]
YEARCOUNTS = [1, -1, 4, -4, 3, 100, -100, 400, -400, 2000]


def run_case(case, rec, cid):
    set_mode(case["mode"])
    rec.begin(cid)
    p = mk_tp(case["p"])
    _one(case, rec, cid, p)
    if case.get("also") is not None:      # the same instant written differently, same duration, same process (each judged as written)
        from harness.common import respellings
        for q in respellings(p, random.Random(case["also"])):
            _one(case, rec, cid, q)
    return True


def _one(case, rec, cid, p):
    how = case["how"]
    d = mk_dur_via(case["d"], case.get("dvia"))
    if how == "add":
        st, q = outcome(lambda: p + d)
    elif how == "radd":
        st, q = outcome(lambda: d + p)
    elif how == "sub":
        nd = mk_dur(gen.neg_dur(case["d"]))
        st, q = outcome(lambda: p - nd)
    else:
        st, q = outcome(lambda: p.add_months(case["d"]["mo"]))
    pp = proj_tp(p)
    if case.get("dvia") == "standardize":
        d = mk_dur(case["d"])          # judged against the duration that was asked for (n months are n months)
    if st == "ok":
        rec.ev("Add", cid, how=how, p=pp, d=proj_dur(d), q=proj_tp(q), ok=True, cls="")
    else:
        rec.ev("Add", cid, how=how, p=pp, d=proj_dur(d), q=pp, ok=False, cls=type(q).__name__)
    return True


def special_days(m, y):
    """month ends, leap day, last days of the year, week 53 and their neighbours, as day numbers."""
    n0 = R.year_start(m, y)
    out = set()
    acc = 0
    for ml in R.mlens(m, y):
        acc += ml
        out |= {n0 + acc - 3, n0 + acc - 2, n0 + acc - 1, n0 + acc}
    out |= {n0, n0 + 1, n0 + 58, n0 + 59, n0 + 60, n0 + R.diy(m, y) - 1, n0 + R.diy(m, y) - 2}
    ws = R.week_year_start(m, y + 1)
    out |= {ws - 8, ws - 7, ws - 1, ws, ws + 6}
    return sorted(n for n in out if n0 <= n < n0 + R.diy(m, y))


def expand(job):
    k = job["kind"]
    rnd = random.Random(job.get("seed", 0))
    if k == "special":
        sp, y = job["mode"], job["y"]
        m = MEANING[sp]
        days = special_days(m, y) if not job.get("alldays") else range(R.year_start(m, y), R.year_start(m, y + 1))
        for n in days:
            for rep in ("cal", "ord", "week"):
                yy, a, b = R.date_of(m, rep, n)
                base = tp_rec(rep, yy, a, b, sod=rnd.choice([0, 43200, 86399]), zh=rnd.choice([0, 5, -3]), zm=0,
                              xd=2 if yy < 0 else 0)
                for mo in job["months"]:
                    yield {"mode": sp, "p": base, "d": {"mo": mo}, "how": rnd.choice(["add", "add", "radd", "sub", "add_months"])}
                for yc in job["years"]:
                    yield {"mode": sp, "p": base, "d": {"y": yc}, "how": rnd.choice(["add", "radd", "sub"])}
                for _ in range(job.get("nmixed", 2)):
                    sg = rnd.choice([1, -1])
                    d = {"y": sg * rnd.choice([0, 1, 4]), "mo": sg * rnd.choice([0, 1, 2, 11, 13]),
                         "d": sg * rnd.choice([0, 1, 30]), "h": sg * rnd.choice([0, 23]), "s": sg * rnd.choice([0, 1])}
                    yield {"mode": sp, "p": base, "d": d, "how": rnd.choice(["add", "radd", "sub"])}
    elif k == "xmode":      # the same dates under every mode in turn, in one process: memo keys recur across modes
        from harness.common import SPELLINGS
        for rnd_round in range(job["rounds"]):
            for y in job["years"]:
                for mo, d in [(1, 31), (2, 28), (2, 29), (2, 30), (3, 31), (12, 31), (12, 30), (11, 30), (4, 30)]:
                    for sp in rnd.sample(SPELLINGS, len(SPELLINGS)):
                        m = MEANING[sp]
                        if d > R.dim(m, y, mo):
                            continue
                        for rep in ("cal", "ord", "week"):
                            yy, a, b = R.date_of(m, rep, R.daynum(m, y, mo, d))
                            base = tp_rec(rep, yy, a, b, sod=43200)
                            for dd in ({"y": 1}, {"y": -1}, {"y": 4}, {"mo": 1}, {"mo": -1}, {"mo": 12}, {"mo": -11}):
                                yield {"mode": sp, "p": base, "d": dd, "how": "add"}
    elif k == "gen":        # (mode, point, months, years) of MC_C05.tla's universe, emitted by TLC
        for mm, rep, y, a, b, nmo, nyr in job["tuples"]:
            d = {kk: v for kk, v in (("mo", nmo), ("y", nyr)) if v}
            if not d:
                continue
            how = "add_months" if (nyr == 0 and (y + a + nmo) % 4 == 0) else ["add", "radd", "sub"][(y + a + b + nmo) % 3]
            yield {"mode": mm, "p": tp_rec(rep, y, a, b, sod=43200, zh=5, zm=30, xd=2 if y < 0 else 0), "d": d, "how": how}
    elif k == "random":
        for _ in range(job["n"]):
            sp = gen.spelling(rnd)
            m = MEANING[sp]
            d = {"y": rnd.choice([0, 0, rnd.randint(-30, 30), rnd.choice(YEARCOUNTS)]),
                 "mo": rnd.choice([0, rnd.randint(-40, 40), rnd.choice(MONTHS)])}
            if rnd.random() < 0.5:
                e = gen.rand_exact_dur(rnd, frac=False, big=False)
                if "w" in e:
                    e = {"d": 7 * e["w"]}
                d.update(e)
            if not d["y"] and not d["mo"]:
                d["mo"] = 1
            fracp = rnd.random() < 0.12
            if fracp and rnd.random() < 0.5:
                k_ = rnd.choice(["h", "mi", "s"])
                d[k_] = d.get(k_, 0) + rnd.choice([0.5, 0.25, -0.75, 1.5])
            p = gen.rand_point(rnd, m, wide=rnd.random() < 0.2, whole=not fracp, allow24=not fracp)
            case = {"mode": sp, "p": p, "d": d, "how": rnd.choice(["add", "radd", "sub"])}
            if rnd.random() < 0.25:
                case["dvia"] = rnd.choice(["parse", "floatdays", "standardize"])      # the same duration obtained in other ways
            if not fracp and p["hh"] < 24 and abs(p["y"]) < 900000 and rnd.random() < 0.1:
                case["also"] = rnd.randrange(10 ** 6)
            yield case
    else:
        raise ValueError(k)


def interleave(jobs_):
    """Reorder: the same year under all modes in one process, so that memoised helpers are hit across modes (C15)."""
    return jobs_


YT_Q = [("gregorian", 2004), ("gregorian", 2003), ("gregorian", 1900), ("gregorian", 2000), ("gregorian", 0),
        ("360day", 2001), ("365_day", 2004), ("366day", 2003), ("gregorian", 2020)]
YT_T = YT_Q + [("gregorian", y) for y in (-1, 1, 1999, 2015, 2100, 9999, -400, 2032)] + \
    [(m, y) for m in ("360_day", "365day", "366_day") for y in (2000, 2020)]


def gen_tuples(seed, limit):
    import shutil
    import tempfile
    from harness import tlc
    scratch = tempfile.mkdtemp(prefix="isodt_gen_")
    try:
        r = tlc.model_check("MC_C05.tla", "Gen_C05.cfg", scratch, workers=4)
        tuples = tlc.gen_lines(r["out"])
    finally:
        shutil.rmtree(scratch, ignore_errors=True)
    if len(tuples) < 30000:
        raise tlc.MachineryError("TLC generated only %d month/year additions" % len(tuples))
    if limit:
        random.Random(seed).shuffle(tuples)
        tuples = tuples[:limit]
    return tuples


def jobs(tier, seed):
    out = []
    tuples = gen_tuples(seed, 10000 if tier == "quick" else 0)
    step = len(tuples) // 6 + 1
    for i in range(6):
        out.append({"kind": "gen", "tuples": tuples[i * step:(i + 1) * step]})
    if tier == "quick":
        for sp, y in YT_Q:
            out.append({"kind": "special", "mode": sp, "y": y, "months": [1, -1, 2, 11, -11, 12, -13, 25, -25],
                        "years": [1, -1, 4, -4, 100, 400], "seed": seed + y})
        for j in range(6):
            out.append({"kind": "random", "n": 1200, "seed": seed * 100 + j})
        out.append({"kind": "xmode", "years": [2020, 2019, 2004, 2100, 2000], "rounds": 1, "seed": seed})
    else:
        for sp, y in YT_T:
            out.append({"kind": "special", "mode": sp, "y": y, "months": list(range(-25, 26)), "years": YEARCOUNTS,
                        "nmixed": 6, "seed": seed + y})
        for sp, y in YT_Q[:6]:
            out.append({"kind": "special", "alldays": True, "mode": sp, "y": y, "months": [1, -1, 2, -2, 12, -12, 13],
                        "years": [1, -1, 4], "nmixed": 1, "seed": seed + y})
        for j in range(32):
            out.append({"kind": "random", "n": 12000, "seed": seed * 1000 + j})
        for j in range(4):
            out.append({"kind": "xmode", "years": [2020, 2019, 2004, 2100, 2000, 1900, 0, 2021, 2024, 1999], "rounds": 2, "seed": seed + j})
    return out
