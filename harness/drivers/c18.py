"""C18: Unix time and the system's local UTC offset.
Cases: {"kind": "zone", "tz": timezone, "alt": altzone (seconds WEST of UTC), "daylight": 0|1, "isdst": -1|0|1}
       {"kind": "epoch", "mode", "n": [days, secs, micro] since the epoch (floor-normalised), "utc": bool, zone config...}
       {"kind": "since", "mode", "p": time point record}"""
import random
import types

from harness import gen
from harness.common import D, DAY, I, MEANING, MEG, cur_mode, mk_tp, outcome, proj_tp, set_mode
from metomi.isodatetime import timezone as TZ

PROP = "C18"


class FakeTime(types.SimpleNamespace):
    pass


def fake(tz, alt, daylight, isdst):
    return FakeTime(timezone=tz, altzone=alt, daylight=daylight, localtime=lambda: types.SimpleNamespace(tm_isdst=isdst))


def codes(s):
    return [ord(c) for c in s]


def with_zone(cfg, fn):
    real = TZ.time
    TZ.time = fake(cfg["tz"], cfg["alt"], cfg["daylight"], cfg["isdst"])
    try:
        return fn()
    finally:
        TZ.time = real


def run_case(case, rec, cid):
    k = case["kind"]
    if k == "zone":
        rec.begin(cid)
        cfg = {x: case[x] for x in ("tz", "alt", "daylight", "isdst")}

        def f():
            h, m = TZ.get_local_time_zone()
            return dict(h=I(h), m=I(m), hint=isinstance(h, int) and isinstance(m, int),
                        basic=codes(TZ.get_local_time_zone_format()),
                        ext=codes(TZ.get_local_time_zone_format(TZ.TimeZoneFormatMode.extended)),
                        red=codes(TZ.get_local_time_zone_format(TZ.TimeZoneFormatMode.reduced)))
        st, v = outcome(lambda: with_zone(cfg, f))
        if st == "ok":
            rec.ev("LocalZone", cid, ok=True, cls="", **cfg, **v)
        else:
            rec.ev("LocalZone", cid, ok=False, cls=type(v).__name__, h=0, m=0, hint=False, basic=[], ext=[], red=[], **cfg)
        return abs(case["tz"]) % 3600 != 0 or case["tz"] > 0 or case["isdst"] == 1
    set_mode(case["mode"])
    rec.begin(cid)
    if k == "epoch":
        cfg = {x: case[x] for x in ("tz", "alt", "daylight", "isdst")}
        n = case["n"][0] * DAY + case["n"][1]
        arg = n if case["n"][2] == 0 else n + case["n"][2] / MEG
        if case.get("as") == "float":
            arg = float(arg)
        elif case.get("as") == "str":
            arg = str(arg)
        if case.get("as") == "strptime":      # the same conversion reached through the parser's %s directive (local zone)
            from metomi.isodatetime.parsers import TimePointParser
            st, v = outcome(lambda: with_zone(cfg, lambda: TimePointParser().strptime(str(n), "%s")))
        else:
            st, v = outcome(lambda: with_zone(cfg, lambda: D.get_timepoint_from_seconds_since_unix_epoch(arg, utc=case["utc"])))
        if st == "ok":
            rec.ev("FromEpoch", cid, n=case["n"], utc=case["utc"], q=proj_tp(v), ok=True, cls="", **cfg)
        else:
            rec.ev("FromEpoch", cid, n=case["n"], utc=case["utc"], q=proj_tp(None), ok=False, cls=type(v).__name__, **cfg)
        return True
    if k == "since":
        p = mk_tp(case["p"])

        def g():
            s = p.seconds_since_unix_epoch
            n = int(s)
            return dict(d=I(n // DAY), s=I(n % DAY), isint=(str(n) == s))
        st, v = outcome(g)
        if st == "ok":
            rec.ev("SinceEpoch", cid, p=proj_tp(p), ok=True, cls="", **v)
        else:
            rec.ev("SinceEpoch", cid, p=proj_tp(p), ok=False, cls=type(v).__name__, d=0, s=0, isint=False)
        return True
    raise ValueError(k)


def expand(job):
    k = job["kind"]
    rnd = random.Random(job.get("seed", 0))
    if k == "zones":     # every whole-minute standard offset in the range, with daylight variants
        for off in range(job["lo"], job["hi"]):
            tz = -off * 60
            for alt_delta in job["deltas"]:
                alt = tz - alt_delta * 60
                if abs(alt) > 1440 * 60:
                    continue
                for daylight, isdst in ((0, 0), (1, 0), (1, 1), (0, 1), (1, -1)):
                    yield {"kind": "zone", "tz": tz, "alt": alt, "daylight": daylight, "isdst": isdst}
    elif k == "epochs":
        ns = [0, 1, -1, 86399, 86400, -86400, -86401, 2 ** 31, -2 ** 31, 2 ** 31 - 1, 10 ** 11, -10 ** 11, 951782400, 1582934400,
              -62167219200, 253402300799, 4102444800]
        for _ in range(job["n"]):
            sp = gen.spelling(rnd)
            x = rnd.random()
            n = rnd.choice(ns) if x < 0.4 else rnd.randint(-10 ** 11, 10 ** 11) if x < 0.8 else rnd.randint(-10 ** 6, 10 ** 6)
            us = 0
            if n >= 0 and rnd.random() < 0.2:
                us = rnd.choice([500000, 250000, 125000, 1, 999999, 100000])
            off = rnd.choice([0, 60, -300, 330, -210, 765, -30, 30, 840, -720])
            cfg = {"tz": -off * 60, "alt": -(off + 60) * 60, "daylight": rnd.choice([0, 1]), "isdst": rnd.choice([0, 1])}
            if us == 0 and rnd.random() < 0.15 and abs(n) < 10 ** 11:
                yield dict(kind="epoch", mode=sp, n=[n // DAY, n % DAY, 0], utc=False, **{"as": "strptime"}, **cfg)
                continue
            yield dict(kind="epoch", mode=sp, n=[n // DAY, n % DAY, us], utc=rnd.random() < 0.5,
                       **{"as": rnd.choice(["int", "float", "str"]) if abs(n) < 2 ** 52 and us == 0 else "float"}, **cfg)
    elif k == "since":
        for _ in range(job["n"]):
            sp = gen.spelling(rnd)
            if rnd.random() < 0.12:
                # the last / first day of a year whose neighbour has another length, carried over the year end by 24:00 or by the
                # UTC offset (late times west of Greenwich, early times east of it)
                from harness import refcal as R
                from harness.common import tp_rec
                if rnd.random() < 0.6:
                    sp = gen.spelling(rnd, "gregorian")
                m_ = MEANING[sp]
                y_ = rnd.choice([1967, 1968, 1969, 1971, 1972, 2019, 2020, 2023, 2024, 1899, 1900, 2000, 1999, 4, 3, 1896])
                n_ = R.year_start(m_, y_ + 1) - rnd.choice([1, 1, 0])
                rep_ = rnd.choice(["ord", "ord", "cal", "week"])
                yy_, a_, b_ = R.date_of(m_, rep_, n_)
                z_ = rnd.choice([(0, 0), (-5, 0), (-3, -30), (5, 0), (13, 45), (0, -30), (1, 0)])
                yield {"kind": "since", "mode": sp, "p": tp_rec(rep_, yy_, a_, b_, sod=rnd.choice([DAY, DAY, 86399, 82800, 0, 1800, 7200]), zh=z_[0], zm=z_[1])}
                continue
            if rnd.random() < 0.15:
                from harness import refcal as R
                from harness.common import tp_rec
                m_ = MEANING[sp]
                y_ = rnd.choice([1967, 1968, 1969, 1970, 1900, 2023, 2024, 2100, 1600, 1])
                mo_ = rnd.choice([2, 3, 3, 1, 12, 6])
                n_ = R.daynum(m_, y_, mo_, 1) + rnd.choice([0, 0, -1, -1, 1, R.dim(m_, y_, mo_) - 1])
                rep_ = rnd.choice(["cal", "cal", "ord", "week"])
                yy_, a_, b_ = R.date_of(m_, rep_, n_)
                z_ = rnd.choice([(0, 0), (5, 0), (-5, 0), (40, 0), (-3, -30), (13, 45)])
                yield {"kind": "since", "mode": sp, "p": tp_rec(rep_, yy_, a_, b_, sod=rnd.choice([DAY, DAY, 0, 7200, 36000, 86399]), zh=z_[0], zm=z_[1],
                                                                 xd=2 if yy_ < 0 else 0)}
                continue
            yield {"kind": "since", "mode": sp, "p": gen.rand_point(rnd, MEANING[sp], wide=rnd.random() < 0.2, whole=rnd.random() < 0.9,
                                                                     allow24=rnd.random() < 0.2)}
    else:
        raise ValueError(k)


def jobs(tier, seed):
    out = []
    step = 181
    deltas = [60, -37] if tier == "quick" else [60, 0, -37, 30, 120, -60, 45]
    for lo in range(-1440, 1441, step):
        out.append({"kind": "zones", "lo": lo, "hi": min(lo + step, 1441), "deltas": deltas})
    n = 1000 if tier == "quick" else 8000
    for j in range(4 if tier == "quick" else 16):
        out.append({"kind": "epochs", "n": n, "seed": seed * 100 + j})
        out.append({"kind": "since", "n": n * 2, "seed": seed * 100 + 50 + j})
    return out
