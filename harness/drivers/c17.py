"""C17: strftime against POSIX for the supported directives; strptime inverts it.
Case: {"mode", "p": whole-second time point record (year 0000-9999), "toks": [{"d": directive|"lit"|"bad", "c": code}], "az": [h, m]}"""
import random

from harness import gen, render
from harness.common import DAY, MEANING, mk_tp, outcome, proj_tp, set_mode
from harness.drivers.c18 import with_zone
from metomi.isodatetime.parsers import TimePointParser

PROP = "C17"
_P = {}
SUP = ["Y", "m", "d", "j", "H", "M", "S", "F", "X", "z"]
BAD = "aAbBcCDeGgIklnpPrRtTuUVwWxyZ"
LITS = " -/:T.,_=@#abcxyzQ" + "|*+?^$()[]{}\\"       # (regular-expression metacharacters are literal text like any other)


def fmt_text(toks):
    out = ""
    for t in toks:
        out += chr(t["c"]) if t["d"] == "lit" else "%" + (chr(t["c"]) if t["d"] == "bad" else t["d"])
    return out


def run_case(case, rec, cid):
    set_mode(case["mode"])
    rec.begin(cid)
    p = mk_tp(case["p"])
    _one(case, rec, cid, p)
    if case.get("seq"):
        # a sequence on the same object: format it, derive other points from it by the public copy-and-change methods, format those
        from harness.common import Duration as _D
        for q in (p.add_months(1), p.add_months(-13), p + _D(days=1), p.to_utc(), p.to_week_date()):
            _one(dict(case, strp=False), rec, cid, q)
    if case.get("also"):
        # the same instant written in another offset / representation, formatted with the same format in the same process:
        # each text must be that of ITS civil date-time
        from harness.common import TimeZone
        zh, zm = case["also"]
        for q in (p.to_time_zone(TimeZone(hours=zh, minutes=zm)), p.to_week_date(), p.to_ordinal_date(), p.to_calendar_date().to_utc()):
            _one(dict(case, strp=False), rec, cid, q)
    return True


def _one(case, rec, cid, p):
    toks = case["toks"]
    fmt = fmt_text(toks)
    pp = proj_tp(p)
    has_s = any(t["d"] == "s" for t in toks)
    if case.get("via") == "dumper":      # the same operation through the dumper object
        from metomi.isodatetime.dumpers import TimePointDumper
        st, v = outcome(lambda: TimePointDumper().strftime(p, fmt))
    else:
        st, v = outcome(lambda: p.strftime(fmt))
    if st == "ok":
        sd = ss = 0
        isint = False
        if has_s:
            try:
                n = int(v)
                sd, ss, isint = n // DAY, n % DAY, str(n) == v
            except ValueError:
                pass
        rec.ev("Strf", cid, p=pp, toks=toks, text=render.codes(v), ok=True, ve=False, cls="", sd=sd, ss=ss, isint=isint)
    else:
        rec.ev("Strf", cid, p=pp, toks=toks, text=[], ok=False, ve=isinstance(v, ValueError), cls=type(v).__name__, sd=0, ss=0, isint=False)
        return True
    if any(t["d"] == "bad" for t in toks) or not case.get("strp"):
        return True
    az = case["az"]
    # (some of the parsers are ALSO told to default to an unknown zone: that option only applies when no zone is assumed)
    both = bool(case.get("both"))
    parser = _P.setdefault((tuple(az), both), TimePointParser(assumed_time_zone=tuple(az), default_to_unknown_time_zone=both))

    def f():
        q = with_zone({"tz": 0, "alt": 0, "daylight": 0, "isdst": 0}, lambda: parser.strptime(v, fmt))
        return dict(q=proj_tp(q), eq=bool(q == p))
    st, w = outcome(f)
    if st == "ok":
        rec.ev("Strp", cid, p=pp, toks=toks, azh=az[0], azm=az[1], ok=True, cls="", **w)
    else:
        rec.ev("Strp", cid, p=pp, toks=toks, azh=az[0], azm=az[1], ok=False, cls=type(w).__name__, q=proj_tp(None), eq=False)
    return True


def lit(rnd):
    return {"d": "lit", "c": ord(rnd.choice(LITS))}


def rand_format(rnd):
    """(tokens, invertible): each field at most once; separators between numeric directives keep strptime unambiguous."""
    x = rnd.random()
    if x < 0.08:
        return [{"d": "s", "c": 0}], True
    date = rnd.choice([["F"], ["Y", "m", "d"], ["Y", "j"], ["Y"], ["Y", "m"], ["d", "m", "Y"], ["j", "Y"]])
    time = rnd.choice([[], ["X"], ["H", "M", "S"], ["H", "M"], ["H"], ["S", "M", "H"]])
    zone = rnd.choice([[], ["z"], ["z"]])
    parts = [date, time, zone]
    rnd.shuffle(parts)
    toks = []
    for part in parts:
        for d in part:
            if toks and rnd.random() < 0.8:
                toks.append(lit(rnd))
            toks.append({"d": d, "c": 0})
    if rnd.random() < 0.3:
        toks.insert(0, lit(rnd))
    if rnd.random() < 0.3:
        toks.append(lit(rnd))
    return toks, True


def expand(job):
    rnd = random.Random(job["seed"])
    k = job["kind"]
    if k == "alldays":      # every day of a year, rotating through the three representations: %j %m %d against the calendar
        from harness import refcal as R
        from harness.common import tp_rec
        sp, y = job["mode"], job["y"]
        m = MEANING[sp]
        n0 = R.year_start(m, y)
        toks = [{"d": "Y", "c": 0}, {"d": "lit", "c": 45}, {"d": "j", "c": 0}, {"d": "lit", "c": 32}, {"d": "F", "c": 0}, {"d": "lit", "c": 84},
                {"d": "X", "c": 0}, {"d": "z", "c": 0}]
        for i in range(R.diy(m, y)):
            rep = ["cal", "ord", "week"][(i + job["seed"]) % 3]
            yy, a_, b_ = R.date_of(m, rep, n0 + i)
            if not (1 <= yy <= 9998):
                continue
            inv = i % 4 == 1      # the format above names the date twice (strptime refuses that): an invertible one every fourth day
            tk = [toks[0], toks[1], toks[2], toks[5], toks[6], toks[7]] if inv else toks
            yield {"mode": sp, "p": tp_rec(rep, yy, a_, b_, sod=rnd.choice([0, 43200, 86399]), zh=rnd.choice([0, 5, -3]), zm=0),
                   "toks": tk, "az": [0, 0], "strp": inv}
        return
    for i in range(job["n"]):
        sp = gen.spelling(rnd)
        m = MEANING[sp]
        if k == "years":
            y = job["lo"] + i
            if y >= job["hi"]:
                return
            p = gen.rand_point(rnd, m, wide=False, whole=True, allow24=False, years=[y], only_years=True)
        else:
            p = gen.rand_point(rnd, m, wide=False, whole=True, allow24=False)
        p = dict(p, prec="hms", mi=max(p["mi"], 0), ss=max(p["ss"], 0), xd=0)
        p.pop("dec", None)
        if not (1 <= p["y"] <= 9998):      # keep the civil year inside 0000-9999 whatever the representation
            continue
        if rnd.random() < 0.1:
            toks = [lit(rnd), {"d": "Y", "c": 0}, {"d": "bad", "c": ord(rnd.choice(BAD))}]
            rnd.shuffle(toks)
            yield {"mode": sp, "p": p, "toks": toks, "az": [0, 0], "strp": False}
            continue
        if rnd.random() < 0.01:
            yield {"mode": sp, "p": p, "toks": [], "az": [0, 0], "strp": False}       # the empty format prints nothing
            continue
        toks, _ = rand_format(rnd)
        case = {"mode": sp, "p": p, "toks": toks, "az": rnd.choice([[0, 0], [5, 30], [-3, -30], [0, -30], [0, 45], [-9, -30], [13, 0], [-11, 0]]), "strp": True,
                "both": rnd.random() < 0.4}
        if rnd.random() < 0.2:
            case["via"] = "dumper"
        if rnd.random() < 0.1 and 30 <= p["y"] <= 9900:
            case["seq"] = True
        if rnd.random() < 0.25:
            case["also"] = rnd.choice([[5, 30], [-3, -30], [13, 45], [-11, 0], [0, 0], [1, 0]])
        yield case


def jobs(tier, seed):
    out = []
    if tier == "quick":
        for j in range(8):
            out.append({"kind": "random", "n": 900, "seed": seed * 100 + j})
        for j in range(8):
            out.append({"kind": "years", "lo": 1 + j * 1250, "hi": min(9999, 1 + (j + 1) * 1250), "n": 1250, "seed": seed * 100 + 50 + j})
        for j, (sp, y) in enumerate([("gregorian", 2020), ("gregorian", 2019), ("gregorian", 1900), ("360day", 2020), ("365_day", 2020), ("366day", 2019)]):
            out.append({"kind": "alldays", "mode": sp, "y": y, "seed": seed + j, "n": 0})
    else:
        for j, (sp, y) in enumerate([(m_, y_) for m_ in ("gregorian", "360day", "365day", "366day", "360_day") for y_ in (2020, 2019, 2000, 1900, 4, 2100)]):
            out.append({"kind": "alldays", "mode": sp, "y": y, "seed": seed + j, "n": 0})
        for j in range(24):
            out.append({"kind": "random", "n": 15000, "seed": seed * 1000 + j})
        for r in range(3):
            for j in range(8):
                out.append({"kind": "years", "lo": 1 + j * 1250, "hi": min(9999, 1 + (j + 1) * 1250), "n": 1250, "seed": seed * 100 + 50 + j + 10 * r})
    return out
