"""C11: Duration arithmetic, equality, ordering, hashing (Durations proper, not TimeZone).
Case: {"mode", "a", "b", "c": duration descriptions, "n": int}"""
import random

from harness import gen
from harness.common import Duration, mk_dur, outcome, proj_dur, set_mode

PROP = "C11"


def run_big(case, rec, cid):
    """All-integer unit-form durations far beyond 2**53 seconds, `delta` seconds apart (possibly spelt with other units)."""
    B, k, delta = int(case["B"]), case["k"], case["delta"]
    h, mi, s = case["hms"]

    def f():
        a = Duration(days=B, hours=h, minutes=mi, seconds=s)
        kd, kh, km = k
        b = Duration(days=B - kd, hours=h + 24 * kd - kh, minutes=mi + 60 * kh - km, seconds=s + 60 * km + delta)
        diff = (b - a).get_seconds()
        return dict(cmp=[bool(a == b), bool(a != b), bool(a < b), bool(a <= b), bool(a > b), bool(a >= b)], hs=hash(a) == hash(b),
                    diff=int(diff) if diff == int(diff) and abs(diff) < 10 ** 6 else 999999)
    st, v = outcome(f)
    if st == "ok":
        rec.ev("DurBig", cid, delta=delta, ok=True, cls="", **v)
    else:
        rec.ev("DurBig", cid, delta=delta, ok=False, cls=type(v).__name__, cmp=[False] * 6, hs=False, diff=0)
    return True


def run_case(case, rec, cid):
    set_mode(case["mode"])
    rec.begin(cid)
    if case.get("kind") == "big":
        return run_big(case, rec, cid)
    a, b, c, n = mk_dur(case["a"]), mk_dur(case["b"]), mk_dur(case["c"]), case["n"]
    pa, pb, pc = proj_dur(a), proj_dur(b), proj_dur(c)
    ids = {}

    def hid(x):
        return ids.setdefault(hash(x), len(ids))

    def f():
        out = {}
        vals = []

        def note(x):
            vals.append([proj_dur(x), hid(x)])
            return x
        note(a), note(b), note(c)          # operands are hashed BEFORE any arithmetic (dict keys, set members)
        for x in (a + b, b + a, (a + b) + c, a + (b + c), a + Duration(), n * a, a * n, a - b, a + (-1 * b), a + (-1 * a),
                  a.to_days(), b.to_days(), -1 * (-1 * a)):
            note(x)
        out["vals"] = vals
        out["ab"], out["ba"] = proj_dur(a + b), proj_dur(b + a)
        out["comm"] = bool(a + b == b + a)
        out["l"], out["r"] = proj_dur((a + b) + c), proj_dur(a + (b + c))
        out["assoc"] = bool((a + b) + c == a + (b + c))
        out["a0"], out["ident"] = proj_dur(a + Duration()), bool(a + Duration() == a and Duration() + a == a)
        inv = a + (-1 * a)
        out["inv"], out["invempty"] = proj_dur(inv), not bool(inv)
        out["na"], out["an"] = proj_dur(n * a), proj_dur(a * n)
        acc = Duration()
        step = a if n >= 0 else -1 * a
        for _ in range(abs(n)):
            acc = acc + step
        out["nsum"], out["muleq"] = proj_dur(acc), bool(n * a == acc)
        # the same n-fold sum written with +=, starting from the operand itself (an alias): the operand must be unchanged
        if n >= 1:
            acc2 = a
            for _ in range(n - 1):
                acc2 += a
            out["nsum2"] = proj_dur(acc2)
        else:
            out["nsum2"] = proj_dur(acc)
        out["aafter"] = proj_dur(a)
        out["amb"], out["apnb"], out["subeq"] = proj_dur(a - b), proj_dur(a + (-1 * b)), bool(a - b == a + (-1 * b))
        out["cmp"] = [bool(a == b), bool(a != b), bool(a < b), bool(a <= b), bool(a > b), bool(a >= b)]
        out["ha"], out["hb"] = hid(a), hid(b)
        out["tod"], out["tow"] = proj_dur(a.to_days()), proj_dur(a.to_weeks() if a.get_is_in_weeks() or not (a.years or a.months) else a)
        from fractions import Fraction
        from harness.common import DAY, I, MEG

        def trip(x):
            us = int(round(Fraction(x) * MEG))
            dd, rem = divmod(us, DAY * MEG)
            return [I(dd), I(rem // MEG), I(rem % MEG)]
        out["gs"] = trip(a.get_seconds())
        das = a.get_days_and_seconds()
        out["das"] = trip(Fraction(das[0]) * DAY + Fraction(das[1]))
        out["dasnorm"] = bool(0 <= das[1] < DAY)
        out["isexact"] = bool(a.is_exact())
        return out
    st, v = outcome(f)
    if st == "ok":
        rec.ev("DurLaws", cid, a=pa, b=pb, c=pc, n=n, ok=True, cls="", **v)
    else:
        rec.ev("Raised", cid, what="duration arithmetic", cls=type(v).__name__, ve=isinstance(v, ValueError))
    if not pa["frac"] and not a.get_is_in_weeks():
        # the constructor's standardize option re-spells the exact part (seconds -> minutes -> hours -> days carry)
        def h():
            s_ = Duration(years=a.years, months=a.months, days=a.days, hours=a.hours, minutes=a.minutes, seconds=a.seconds, standardize=True)
            return dict(s=proj_dur(s_), eq=bool(s_ == a and a == s_), hs=hash(s_) == hash(a), lt=bool(s_ < a), gt=bool(s_ > a))
        st, v = outcome(h)
        if st == "ok":
            rec.ev("DurStd", cid, a=pa, ok=True, cls="", **v)
        else:
            rec.ev("DurStd", cid, a=pa, ok=False, cls=type(v).__name__, s=pa, eq=False, hs=False, lt=False, gt=False)
    if not pa["frac"]:
        # beyond C11: //, abs, to_weeks, bool on the stored form (extended specification, ImplDur.tla)
        k = n if n else 2
        hastw = bool(a.get_is_in_weeks() or a.days is not None)

        def g():
            twid = True
            if hastw:
                x = a.to_weeks()          # a derived value is a Duration like any other: the empty duration is its identity
                twid = bool(x + Duration() == x and Duration() + x == x and hash(x + Duration()) == hash(x) and (x + b) - b == x)
            return dict(fd=proj_dur(a // k), ab=proj_dur(abs(a)), tw=proj_dur(a.to_weeks()) if hastw else proj_dur(None), bl=bool(a), twid=twid)
        st, v = outcome(g)
        if st == "ok":
            rec.ev("DurExt", cid, a=pa, n=k, hastw=hastw, ok=True, cls="", **v)
        else:
            rec.ev("DurExt", cid, a=pa, n=k, hastw=hastw, ok=False, cls=type(v).__name__, fd=pa, ab=pa, tw=pa, bl=False, twid=True)
    return True


UNITS = [("d", 1), ("h", 24), ("mi", 1440), ("s", 86400)]


ROUGH_ZERO = [{"mo": 1, "d": -30}, {"y": 1, "d": -365}, {"y": 1, "d": -360}, {"y": 1, "d": -366}, {"mo": 2, "d": -60}, {"y": -1, "mo": 12, "d": 5},
              {"mo": -1, "d": 30}, {"mo": 1, "h": -720}, {"y": 1, "mo": -12}, {"mo": 12, "d": -360}]


def rand_dur(rnd, frac=False, nominal=True):
    x = rnd.random()
    if nominal and not frac and x > 0.96:      # non-empty durations whose ROUGH length (year = 365/360/366 d, month = 30 d) is zero
        return dict(rnd.choice(ROUGH_ZERO))
    if x < 0.15:
        return {"w": rnd.randint(-60, 60)}
    d = {}
    if nominal and rnd.random() < 0.4:
        d["y"] = rnd.randint(-12, 12)
    if nominal and rnd.random() < 0.4:
        d["mo"] = rnd.randint(-30, 30)
    for k, hi in (("d", 400), ("h", 100), ("mi", 3000), ("s", 100000)):
        if rnd.random() < 0.45:
            d[k] = rnd.randint(-hi, hi)
    if frac:
        k = rnd.choice(["h", "mi", "s"])
        d[k] = d.get(k, 0) + rnd.choice([0.5, 0.25, -0.75, 0.1, 0.3, -0.7, 1.0e-6])
    if rnd.random() < 0.3:      # single-signed
        sg = rnd.choice([1, -1])
        d = {k: sg * abs(v) for k, v in d.items()}
    return d


def respell_exact(rnd, d):
    """Another spelling of the same exact length (same nominal parts)."""
    tot = d.get("w", 0) * 7 * 86400 if "w" in d else (d.get("d", 0) * 86400 + d.get("h", 0) * 3600 + d.get("mi", 0) * 60 + d.get("s", 0))
    out = {k: d[k] for k in ("y", "mo") if k in d}
    if isinstance(tot, float):
        out["s"] = tot
        return out
    if tot % (7 * 86400) == 0 and not out and rnd.random() < 0.4:
        return {"w": tot // (7 * 86400)}
    k = rnd.choice(["s", "mi", "h", "d"])
    size = {"s": 1, "mi": 60, "h": 3600, "d": 86400}[k]
    out[k] = tot // size
    out["s"] = out.get("s", 0) + tot - (tot // size) * size if k != "s" else tot
    return out


def expand(job):
    rnd = random.Random(job["seed"])
    for _ in range(job["n"]):
        frac = rnd.random() < 0.15
        a = rand_dur(rnd, frac)
        x = rnd.random()
        y = rnd.random()
        if y > 0.97:
            yield {"mode": gen.spelling(rnd), "kind": "big",
                   "B": str(rnd.choice([10 ** 11 + 5, 10 ** 12, 2 ** 40 + 1, 10 ** 13 + 7, 3 * 10 ** 14 + 1, 2 ** 62]) * rnd.choice([1, -1])),
                   "hms": [rnd.randint(-30, 30), rnd.randint(-70, 70), rnd.randint(-100000, 100000)],
                   "k": [rnd.choice([0, 0, 1, 5]), rnd.choice([0, 0, 2]), rnd.choice([0, 0, 3])],
                   "delta": rnd.choice([-2, -1, 0, 0, 1, 1, 2, 60, -3600])}
            continue
        if y < 0.04:
            # very long durations one second (or one day) apart: equality and order must not be judged to a relative tolerance
            a = {"d": rnd.choice([1, -1]) * rnd.randint(10 ** 7, 4 * 10 ** 8)}
            if rnd.random() < 0.5:
                a["s"] = rnd.randint(0, 86399)
            b = dict(a)
            k = rnd.choice(["s", "s", "s", "mi", "d"])
            b[k] = b.get(k, 0) + rnd.choice([1, -1, 2, 0])
            yield {"mode": gen.spelling(rnd), "a": a, "b": b, "c": rand_dur(rnd, nominal=False), "n": rnd.randint(-2, 2)}
            continue
        if y < 0.13 and y >= 0.10:
            # components that cancel: the same length as the empty duration (or as a plain spelling), written with non-zero fields
            a = dict(rnd.choice([{"d": 1, "h": -24}, {"h": 1, "mi": -60}, {"d": 2, "h": -48}, {"mi": 90, "h": -1, "s": -1800}, {"d": -1, "s": 86400},
                                 {"d": 1, "h": -23}, {"h": 25, "d": -1}]))
            b = dict(rnd.choice([{"s": 0}, {"h": 0}, {"h": 1}, {"d": 0, "mi": 60}, {"s": 3600}]))
            if rnd.random() < 0.5:
                a, b = b, a
            yield {"mode": gen.spelling(rnd), "a": a, "b": b, "c": rand_dur(rnd), "n": rnd.randint(-3, 3)}
            continue
        if y < 0.10:
            # a decimal spelling and the whole-number spelling of the same length in a finer unit (1,1 h = 66 min):
            # whether the two are == is a matter of float rounding, but equal values must hash equally and must not be ordered
            k = rnd.choice(["h", "mi"])
            fine = {"h": "mi", "mi": "s", "d": "h"}[k]
            per = {"h": 60, "mi": 60, "d": 24}[k]
            whole, tenths = rnd.randint(-40, 40), rnd.choice([1, 2, 3, 4, 6, 7, 8, 9, 5])
            per10 = per * tenths
            if per10 % 10:
                tenths = 5
                per10 = per * 5
            a = {k: whole + tenths / 10.0}
            b = {fine: whole * per + per10 // 10}
            if rnd.random() < 0.3:
                a, b = b, a
            yield {"mode": gen.spelling(rnd), "a": a, "b": b, "c": rand_dur(rnd), "n": rnd.randint(-6, 6)}
            continue
        if x < 0.3:
            b = respell_exact(rnd, a)
        elif x < 0.4:
            b = dict(a)
            k = rnd.choice(["y", "mo", "d", "s"])
            b = {kk: vv for kk, vv in b.items() if kk != "w"} if k in ("y", "mo") and "w" in b else b
            if "w" not in b:
                b[k] = b.get(k, 0) + rnd.choice([1, -1])
        elif x < 0.5 and ("y" in a or "mo" in a):
            b = dict(a)
            k = rnd.choice([kk for kk in ("y", "mo") if kk in a])
            b[k] = -b[k]                      # same magnitudes, one nominal part of the other sign
        else:
            b = rand_dur(rnd, frac and rnd.random() < 0.5)
        yield {"mode": gen.spelling(rnd), "a": a, "b": b, "c": rand_dur(rnd), "n": rnd.randint(-6, 6)}


def jobs(tier, seed):
    if tier == "quick":
        return [{"n": 600, "seed": seed * 100 + j} for j in range(16)]
    return [{"n": 8000, "seed": seed * 1000 + j} for j in range(32)]
