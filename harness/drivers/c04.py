"""C04: TimePoint - TimePoint and the identities that tie it to addition.
Case: {"mode", "a": tp, "b": tp}  |  {"mode", "p": tp, "d": exact duration, "kind": "rt"}"""
import random

from harness import gen
from harness.common import MEANING, mk_dur, mk_tp, outcome, proj_dur, proj_tp, set_mode
from harness.drivers.c02 import respell, shifted

PROP = "C04"


def run_case(case, rec, cid):
    set_mode(case["mode"])
    rec.begin(cid)
    if case.get("kind") == "rt":
        p, d = mk_tp(case["p"]), mk_dur(case["d"])

        def f():
            r = (p + d) - p
            return dict(r=proj_dur(r), eq=bool(r == d))
        st, v = outcome(f)
        if st == "ok":
            rec.ev("RoundTrip", cid, p=proj_tp(p), d=proj_dur(d), ok=True, cls="", **v)
        else:
            rec.ev("RoundTrip", cid, p=proj_tp(p), d=proj_dur(d), ok=False, cls=type(v).__name__, r=proj_dur(d), eq=False)
        return True
    a, b = mk_tp(case["a"]), mk_tp(case["b"])
    if case.get("years") is not None:
        # a three-step sequence on the same objects: look at b (whatever it remembers about itself is now filled in), derive q from
        # it by whole years only, subtract
        st, _ = outcome(lambda: (b.get_ordinal_date(), b.day_of_year, hash(b), b - a, b.get_week_date()))
        from harness.common import Duration as _D
        for yrs in case["years"]:
            st, q = outcome(lambda: b + _D(years=yrs))
            if st != "ok":
                continue
            for x, y in ((q, b), (b, q)):
                st, d = outcome(lambda x=x, y=y: x - y)
                if st == "ok":
                    rec.ev("SubTP", cid, a=proj_tp(x), b=proj_tp(y), d=proj_dur(d), ok=True, cls="")
                else:
                    rec.ev("SubTP", cid, a=proj_tp(x), b=proj_tp(y), d=proj_dur(None), ok=False, cls=type(d).__name__)
    if case.get("also") is not None:      # the same minuend written differently, same subtrahend, same process
        from harness.common import respellings
        for q in respellings(a, random.Random(case["also"])):
            st, d = outcome(lambda q=q: q - b)
            if st == "ok":
                rec.ev("SubTP", cid, a=proj_tp(q), b=proj_tp(b), d=proj_dur(d), ok=True, cls="")
            else:
                rec.ev("SubTP", cid, a=proj_tp(q), b=proj_tp(b), d=proj_dur(None), ok=False, cls=type(d).__name__)
    pa, pb = proj_tp(a), proj_tp(b)
    st, d = outcome(lambda: a - b)
    if st == "ok":
        rec.ev("SubTP", cid, a=pa, b=pb, d=proj_dur(d), ok=True, cls="")
    else:
        rec.ev("SubTP", cid, a=pa, b=pb, d=proj_dur(None), ok=False, cls=type(d).__name__)
        return True
    if abs(pa["y"] - pb["y"]) > 2500:
        return True      # adding back millions of days walks the calendar one day at a time (DESIGN section 3)

    def ident():
        dab, dba = a - b, b - a
        back = b + dab
        return dict(dab=proj_dur(dab), dba=proj_dur(dba), eqneg=bool(dab == -1 * dba), back=proj_tp(back), eqback=bool(back == a))
    st, v = outcome(ident)
    if st == "ok":
        rec.ev("Ident", cid, a=pa, b=pb, ok=True, cls="", **v)
    else:
        rec.ev("Ident", cid, a=pa, b=pb, ok=False, cls=type(v).__name__, dab=proj_dur(None), dba=proj_dur(None),
               eqneg=False, back=pa, eqback=False)
    return pa["y"] != pb["y"] or pa["rep"] != pb["rep"] or (pa["zh"], pa["zm"]) != (pb["zh"], pb["zm"])


def expand(job):
    rnd = random.Random(job["seed"])
    for _ in range(job["n"]):
        sp = gen.spelling(rnd)
        m = MEANING[sp]
        x = rnd.random()
        if x < 0.2:
            yield {"mode": sp, "kind": "rt", "p": gen.rand_point(rnd, m, whole=True, allow24=rnd.random() < 0.3),
                   "d": gen.rand_exact_dur(rnd, frac=False)}
            continue
        a = gen.rand_point(rnd, m, wide=rnd.random() < 0.3, whole=rnd.random() < 0.85)
        if x < 0.45 and "dec" not in a:
            b = shifted(rnd, m, a, rnd.choice([0, 1, -1, 60, -3599, 86399, -86400, 86401, rnd.randint(-10 ** 7, 10 ** 7)]))
        elif x < 0.55 and "dec" not in a:
            b = respell(rnd, m, a)
        else:
            b = gen.rand_point(rnd, m, wide=rnd.random() < 0.3, whole=rnd.random() < 0.85)
        case = {"mode": sp, "a": a, "b": b}
        if rnd.random() < 0.08 and "dec" not in b and abs(b["y"]) < 900000:
            case["years"] = [rnd.choice([1, -1, 4, -4, 100, 400]), rnd.choice([1, 2, -3])]
        if rnd.random() < 0.06 and "dec" not in a:
            # the same clock reading in two offsets whose hour parts and minute parts differ in opposite directions
            z1, z2 = rnd.choice([((5, 15), (3, 45)), ((-5, -15), (-3, -45)), ((1, 0), (0, 30)), ((5, 30), (-3, -45)), ((0, 45), (1, 15)), ((13, 45), (12, 59))])
            if rnd.random() < 0.5:
                z1, z2 = z2, z1
            case["a"] = dict(a, zh=z1[0], zm=z1[1])
            case["b"] = dict(a, zh=z2[0], zm=z2[1])
        if "dec" not in a and a["prec"] == "hms" and a["hh"] < 24 and abs(a["y"]) < 900000 and rnd.random() < 0.1:
            case["also"] = rnd.randrange(10 ** 6)
        yield case


def jobs(tier, seed):
    if tier == "quick":
        return [{"n": 700, "seed": seed * 100 + j} for j in range(16)]
    return [{"n": 10000, "seed": seed * 1000 + j} for j in range(48)]


def classify(case, rej, events):
    from harness.drivers.c02 import _inexact
    ev = rej["event"]
    if rej["op"] == "Ident" and rej["clause"] == "b+(a-b)==a" and _inexact(ev["back"], ev["a"]):
        return "decimal-hour-form-rezoned-by-non-quarter-hour"
    return None
