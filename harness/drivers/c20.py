"""C20: truncated TimePoint + full TimePoint (either operand order).
Case: {"mode", "t": {"hh","mi","ss" (-1 = unspecified), "dom","doy","dow","woy" (0 = unspecified), "zu": bool, "zh","zm"},
       "p": time point record, "order": "t+p"|"p+t"}"""
import random

from harness import gen
from harness import refcal as R
from harness.common import DAY, MEANING, TimePoint, cpu_watchdog, mk_tp, outcome, proj_tp, set_mode, tp_rec

PROP = "C20"


class OpTimeout(Exception):
    pass


def _alarm(signum, frame):
    raise OpTimeout()


def mk_trunc(t):
    kw = {"truncated": True}
    for k, name in (("hh", "hour_of_day"), ("mi", "minute_of_hour"), ("ss", "second_of_minute")):
        if t[k] >= 0:
            kw[name] = t[k]
    for k, name in (("dom", "day_of_month"), ("doy", "day_of_year"), ("dow", "day_of_week"), ("woy", "week_of_year")):
        if t[k] > 0:
            kw[name] = t[k]
    if not t["zu"]:
        kw.update(time_zone_hour=t["zh"], time_zone_minute=t["zm"])
    return TimePoint(**kw)


def run_case(case, rec, cid):
    set_mode(case["mode"])
    rec.begin(cid)
    st, t = outcome(lambda: mk_trunc(case["t"]))
    if st == "err":
        return False          # the library refuses this truncated point in this mode (e.g. week 53 where none exists)
    p = mk_tp(case["p"])
    p_before = proj_tp(p)
    with cpu_watchdog(5, OpTimeout):
        def f():
            q = (t + p) if case["order"] == "t+p" else (p + t)
            q2 = t + q
            return dict(q=proj_tp(q), q2=proj_tp(q2))
        st, v = outcome(f)
    if st == "ok" and proj_tp(p) != p_before:
        rec.ev("Raised", cid, what="add_truncated changed its full operand in place", cls="OperandMutated", ve=False)
    if st == "ok":
        rec.ev("TruncAdd", cid, t=case["t"], p=p_before, order=case["order"], ok=True, cls="", **v)
    else:
        rec.ev("TruncAdd", cid, t=case["t"], p=proj_tp(p), order=case["order"], ok=False, cls=type(v).__name__,
               q=proj_tp(p), q2=proj_tp(p))
    return True


def classify(case, rej, events):
    # (the class "minute/second without hour plus a day designator" was a recorded finding until it was repaired by 3e75abc;
    #  nothing is excused any more)
    return None


SHAPES = ["h", "hm", "hms", "m", "ms", "s", "none"]


def rand_trunc(rnd, m, p):
    shape = rnd.choice(SHAPES)
    t = {"hh": -1, "mi": -1, "ss": -1, "dom": 0, "doy": 0, "dow": 0, "woy": 0, "zu": True, "zh": 0, "zm": 0}
    if "h" in shape:
        t["hh"] = rnd.choice([0, 6, 12, 23, rnd.randint(0, 23), p["hh"] % 24])
        if shape == "h" and rnd.random() < 0.08:
            t["hh"] = 24          # T24: the end of the day
    if "m" in shape:
        t["mi"] = rnd.choice([0, 30, 59, rnd.randint(0, 59), max(p["mi"], 0)])
    if "s" in shape and shape != "hms"[:0]:
        if shape in ("hms", "ms", "s"):
            t["ss"] = rnd.choice([0, 15, 59, rnd.randint(0, 59), max(p["ss"], 0)])
    dd = rnd.choice(["none", "dom", "doy", "dow", "week"] if shape != "none" else ["dom", "doy", "dow", "week"])
    maxdom = max(R.ML[m][1])
    if dd == "dom":
        t["dom"] = rnd.choice([1, 15, 28, 29, 30, 31, rnd.randint(1, 31)])
        t["dom"] = min(t["dom"], maxdom)
    elif dd == "doy":
        t["doy"] = rnd.choice([1, 59, 60, 61, 365, 366, rnd.randint(1, 366)])
        t["doy"] = min(t["doy"], sum(R.ML[m][1]))
    elif dd == "dow":
        t["dow"] = rnd.randint(1, 7)
    elif dd == "week":
        t["woy"] = rnd.choice([1, 2, 26, 52, 53, rnd.randint(1, 53)])
        t["dow"] = rnd.randint(1, 7)
    if rnd.random() < 0.35 and shape != "none":
        z = rnd.choice([(0, 0), (1, 0), (-5, 0), (5, 30), (-3, -30), (0, 45), (13, 45), (-11, 0)])
        t.update(zu=False, zh=z[0], zm=z[1])
    return t


def expand(job):
    rnd = random.Random(job["seed"])
    if job.get("kind") == "gen":       # the (mode, truncated point, full point) universe of MC_C20.tla, emitted by TLC
        zs = [(0, 0), (1, 0), (-3, -30), (5, 30)]
        for i, (mm, hh, mi, ss, dom, doy, dow, woy, y, a, b, sod) in enumerate(job["tuples"]):
            z = zs[i % 4]
            t = {"hh": hh, "mi": mi, "ss": ss, "dom": dom, "doy": doy, "dow": dow, "woy": woy, "zu": True, "zh": 0, "zm": 0}
            if i % 3 == 0 and (hh >= 0 or mi >= 0 or ss >= 0):
                t.update(zu=False, zh=z[0], zm=z[1])       # read in the same offset as p: the model's universe, spelled with a zone
            yield {"mode": mm, "t": t, "p": tp_rec("cal", y, a, b, sod=sod, zh=z[0], zm=z[1]), "order": ["t+p", "p+t"][i % 2]}
        return
    for _ in range(job["n"]):
        sp = gen.spelling(rnd)
        m = MEANING[sp]
        p = gen.rand_point(rnd, m, wide=False, whole=True, allow24=False, zones=[(0, 0), (0, 0), (1, 0), (-3, -30), (5, 30), (12, 45), (-11, 0)])
        p = dict(p, prec="hms", mi=max(p["mi"], 0), ss=max(p["ss"], 0))
        t = rand_trunc(rnd, m, p)
        x = rnd.random()
        if x < 0.06:
            # p on the first days of an ISO week-year that begins in late December (or the last days of one that ends in early
            # January), in calendar / ordinal form, with a weekday or week designator
            wy = rnd.choice([2019, 2020, 2021, 2025, 2026, 2015, 2016, 1998, 2004, 2009])
            n_ = R.week_year_start(m, wy) + rnd.choice([0, 0, 1, -1, -2, 6])
            rep_ = rnd.choice(["cal", "ord", "cal", "week"])
            yy_, a_, b_ = R.date_of(m, rep_, n_)
            p = dict(p, rep=rep_, y=yy_, a=a_, b=b_)
            t.update(dom=0, doy=0, dow=rnd.choice([1, 1, 2, 7]), woy=rnd.choice([0, 0, 1, 53, 52]))
            if t["woy"] == 53 and m == "360day":
                t["woy"] = 52
        elif x < 0.10:
            # day 366 (or 29 February) sought from the years before a century year that is not a leap year: the next one is 8 years on
            yy_ = rnd.choice([2096, 2097, 2099, 2100, 1896, 1897, 1900, 2196])
            n_ = R.year_start(m, yy_) + rnd.choice([0, 59, 200, R.diy(m, yy_) - 1])
            rep_ = rnd.choice(["cal", "ord", "week"])
            y2, a_, b_ = R.date_of(m, rep_, n_)
            p = dict(p, rep=rep_, y=y2, a=a_, b=b_)
            if rnd.random() < 0.7:
                t.update(dom=0, doy=min(366, R.diy(m, 2000)), dow=0, woy=0)
        elif x < 0.18:
            # t carries an offset of its own, and p - read in THAT offset - stands exactly at (or one second off) midnight
            zt = rnd.choice([z_ for z_ in [(0, 0), (1, 0), (2, 0), (-5, 0), (5, 30), (-3, -30), (0, 45), (13, 45), (-11, 0)] if z_ != (p["zh"], p["zm"])])
            if rnd.random() < 0.6:
                t.update(hh=-1, mi=-1, ss=-1)
                if not (t["dom"] or t["doy"] or t["dow"]):
                    t["dow"] = rnd.randint(1, 7)
            t.update(zu=False, zh=zt[0], zm=zt[1])
            sod = ((p["zh"] * 60 + p["zm"]) * 60 - (zt[0] * 60 + zt[1]) * 60 + rnd.choice([0, 0, 0, 1, -1])) % DAY
            p = dict(p, hh=sod // 3600, mi=sod // 60 % 60, ss=sod % 60)
        yield {"mode": sp, "t": t, "p": p, "order": rnd.choice(["t+p", "p+t"])}


def gen_tuples():
    import shutil
    import tempfile
    from harness import tlc
    scratch = tempfile.mkdtemp(prefix="isodt_gen_")
    try:
        r = tlc.model_check("MC_C20.tla", "Gen_C20.cfg", scratch, workers=4)
        tuples = tlc.gen_lines(r["out"])
    finally:
        shutil.rmtree(scratch, ignore_errors=True)
    if len(tuples) < 5000:
        raise tlc.MachineryError("TLC generated only %d truncated additions" % len(tuples))
    return tuples


def jobs(tier, seed):
    tuples = gen_tuples()
    step = len(tuples) // 4 + 1
    out = [{"kind": "gen", "tuples": tuples[i * step:(i + 1) * step], "seed": seed} for i in range(4)]
    if tier == "quick":
        return out + [{"n": 350, "seed": seed * 100 + j} for j in range(12)]
    return out + [{"n": 5000, "seed": seed * 1000 + j} for j in range(28)]
