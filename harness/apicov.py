"""Which functions of the library do the drivers execute?  (a gap finder for the harness, not a check)
usage: apicov.py [cases per job, default 40]
Runs the first cases of every quick-tier job of every driver under sys.setprofile and lists the functions / methods /
properties defined in metomi.isodatetime.{data,parsers,dumpers,timezone,datetimeoper,main} that were never entered."""
import collections
import importlib
import inspect
import os
import sys

ROOT = os.path.dirname(os.path.dirname(os.path.abspath(__file__)))
sys.path.insert(0, ROOT)
os.environ["ISODATETIME_VERIF"] = "1"
from harness.common import Recorder  # noqa: E402

MODS = ("data", "parsers", "dumpers", "timezone", "datetimeoper", "main")
DRIVERS = ["c%02d" % i for i in range(1, 21)] + ["c07t"]


def main():
    per_job = int(sys.argv[1]) if len(sys.argv) > 1 else 40
    mods = [importlib.import_module("metomi.isodatetime." + m) for m in MODS]
    files = {os.path.realpath(m.__file__): m.__name__.split(".")[-1] for m in mods}
    called = collections.Counter()

    def prof(frame, event, arg):
        if event == "call":
            f = frame.f_code.co_filename
            if f in files:
                called["%s.%s" % (files[f], frame.f_code.co_qualname)] += 1
    for drv in DRIVERS:
        mod = importlib.import_module("harness.drivers." + drv)
        sys.setprofile(prof)
        try:
            for job in mod.jobs("quick", 1):
                rec = Recorder()
                for k, case in enumerate(mod.expand(job)):
                    if k >= per_job:
                        break
                    try:
                        mod.run_case(case, rec, rec.case(case))
                    except Exception:  # noqa: BLE001
                        pass
        finally:
            sys.setprofile(None)
    names = []
    for m in mods:
        mn = m.__name__.split(".")[-1]
        for name, obj in vars(m).items():
            if inspect.isfunction(obj) and obj.__module__ == m.__name__:
                names.append("%s.%s" % (mn, name))
            elif inspect.isclass(obj) and obj.__module__ == m.__name__:
                for n2, o2 in vars(obj).items():
                    f = o2.__func__ if isinstance(o2, (staticmethod, classmethod)) else o2.fget if isinstance(o2, property) else o2
                    if inspect.isfunction(f) or inspect.isfunction(getattr(f, "__wrapped__", None)):
                        names.append("%s.%s.%s" % (mn, name, n2))
    missing = [n for n in names if n not in called]
    print("%d functions defined, %d entered by the drivers, %d never entered:" % (len(names), len(names) - len(missing), len(missing)))
    for n in missing:
        print("  " + n)


if __name__ == "__main__":
    main()
