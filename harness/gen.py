"""Input generators shared by the drivers: boundary-rich time points, zones, durations.
All randomness comes from a random.Random seeded from VERIF_SEED."""
from harness import refcal as R
from harness.common import DAY, MEANING, SPELLINGS, tp_rec

MODES4 = ["gregorian", "360day", "365day", "366day"]
YEARS = [-400, -101, -100, -4, -1, 0, 1, 4, 99, 100, 400, 1582, 1899, 1900, 1967, 1968, 1999, 2000, 2001,
         2003, 2004, 2005, 2015, 2019, 2020, 2021, 2026, 2032, 2100, 2400, 9998, 9999]
BIGYEARS = [10000, 10001, 123456, -123456, 999999, -999999]
SODS = [0, 1, 59, 60, 3599, 3600, 43200, 86340, 86399]
ZONES = [(0, 0), (0, 0), (1, 0), (-1, 0), (5, 30), (-3, -30), (0, 30), (0, -30), (13, 45), (-12, 0), (14, 0),
         (23, 59), (-23, -59), (24, 0), (-48, 0), (99, 59), (-99, -59), (0, 59), (0, -1)]
EXACT_DURS = [{"s": 1}, {"s": 59}, {"s": 60}, {"s": 3600}, {"s": 86399}, {"s": 86400}, {"mi": 1}, {"mi": 59}, {"mi": 60},
              {"mi": 1439}, {"mi": 1440}, {"h": 1}, {"h": 23}, {"h": 24}, {"h": 25}, {"h": 48}, {"d": 1}, {"d": 2},
              {"d": 6}, {"d": 7}, {"d": 28}, {"d": 29}, {"d": 30}, {"d": 31}, {"d": 59}, {"d": 60}, {"d": 364},
              {"d": 365}, {"d": 366}, {"d": 367}, {"d": 730}, {"d": 731}, {"d": 1461}, {"d": 36524}, {"d": 36525},
              {"d": 146097}, {"w": 1}, {"w": 2}, {"w": 52}, {"w": 53}, {"d": 1, "h": 1, "mi": 1, "s": 1},
              {"d": 30, "h": 23, "mi": 59, "s": 59}, {"d": 365, "s": 1}, {"h": 8784}, {"mi": 527040}]


def neg_dur(d):
    return {k: -v for k, v in d.items()}


def edge_offsets(mode, y):
    """day offsets within a year that sit on month, leap-day, year and week-year edges (+-2)."""
    offs = set()
    acc = 0
    for ml in R.mlens(mode, y):
        for x in (acc - 2, acc - 1, acc, acc + 1, acc + ml - 1):
            offs.add(x)
        acc += ml
    n = R.diy(mode, y)
    for x in range(-3, 4):
        offs.add(x)
        offs.add(n - 1 + x)
    for wy in (y, y + 1):
        s = R.week_year_start(mode, wy) - R.year_start(mode, y)
        for x in (-1, 0, 1, 6, 7):
            offs.add(s + x)
    return sorted(offs)


def rand_point(rnd, mode, wide=True, whole=True, allow24=True, years=None, zones=None, only_years=False):
    """A boundary-biased random time point record for calendar meaning `mode`."""
    ys = years or YEARS
    r = rnd.random()
    if r < 0.75 or only_years:
        y = rnd.choice(ys)
    elif r < 0.9 or not wide:
        y = rnd.randint(1800, 2200)
    else:
        y = rnd.choice(BIGYEARS + [rnd.randint(-20000, 20000)])
    if rnd.random() < 0.7:
        n = R.year_start(mode, y) + rnd.choice(edge_offsets(mode, y))
    else:
        n = R.year_start(mode, y) + rnd.randrange(R.diy(mode, y))
    rep = rnd.choice(["cal", "ord", "week"])
    yy, a, b = R.date_of(mode, rep, n)
    x = rnd.random()
    if allow24 and x < 0.06:
        sod = DAY
    elif x < 0.7:
        sod = rnd.choice(SODS)
    else:
        sod = rnd.randrange(DAY)
    zh, zm = rnd.choice(zones or ZONES)
    if rnd.random() < 0.15 and not zones:
        zh = rnd.randint(-99, 99)
        zm = rnd.randint(0, 59) * (1 if zh > 0 else -1 if zh < 0 else rnd.choice([1, -1]))
    prec = rnd.choice(["hms", "hms", "hms", "hm", "h"])
    if sod == DAY:
        prec = rnd.choice(["hms", "hm", "h"])
    dec = None
    if prec == "hm":
        sod -= sod % 60
    elif prec == "h":
        sod -= sod % 3600
    if not whole and rnd.random() < 0.5 and sod != DAY:
        dec = rnd.choice(["5", "25", "125", "75", "0625", "1", "3", "999999", "000001", "123456", "9", "05"])
    xd = 0
    if abs(yy) > 9999 or yy < 0:
        xd = 2 if abs(yy) < 1000000 else 3
    elif rnd.random() < 0.1:
        xd = 2
    return tp_rec(rep, yy, a, b, sod=sod, prec=prec, zh=zh, zm=zm, xd=xd, dec=dec)


def rand_exact_dur(rnd, frac=False, big=True):
    x = rnd.random()
    if x < 0.55:
        d = dict(rnd.choice(EXACT_DURS))
    elif x < 0.8:
        d = {"d": rnd.randint(0, 800), "h": rnd.randint(0, 50), "mi": rnd.randint(0, 200), "s": rnd.randint(0, 5000)}
        if rnd.random() < 0.3:      # mixed signs between components
            d = {k: v * rnd.choice([1, -1]) for k, v in d.items()}
    elif big:
        d = rnd.choice([{"d": rnd.randint(0, 300000)}, {"h": rnd.randint(0, 100000)}, {"mi": rnd.randint(0, 1000000)},
                        {"s": rnd.randint(0, 100000000)}, {"w": rnd.randint(0, 20000)}])
    else:
        d = {"d": rnd.randint(0, 40), "s": rnd.randint(0, 86400)}
    if frac and "w" not in d and rnd.random() < 0.6:
        k = rnd.choice(["h", "mi", "s"])
        d[k] = d.get(k, 0) + rnd.choice([0.5, 0.25, 0.125, 0.1, 0.3, 1.75, 0.000001, 0.999999, 2.5, 0.0625])
    if rnd.random() < 0.5:
        d = neg_dur(d)
    return d


def spelling(rnd, mode=None):
    if mode is None:
        return rnd.choice(SPELLINGS)
    return rnd.choice([s for s in SPELLINGS if MEANING[s] == mode])
