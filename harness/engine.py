"""Check engine: model-check the specification instances of a property, run the drivers against the
library in /repo's working tree, validate the recorded traces with TLC (Conform.tla), classify
rejections (violation / known finding), write replay files and the evidence file."""
import hashlib
import importlib
import json
import multiprocessing as mp
import os
import shutil
import signal
import sys
import tempfile
import time

ROOT = os.path.dirname(os.path.dirname(os.path.abspath(__file__)))
sys.path.insert(0, ROOT)

from harness import tlc  # noqa: E402

EVID_DIR = os.path.join(ROOT, "evidence")
REPLAY_DIR = os.environ.get("VERIF_REPLAY_DIR") or os.path.join(ROOT, "replays")
KNOWN = os.path.join(ROOT, "known_findings.json")
MAX_EVENTS_PER_FILE = 25000
SINGLE_WORKER_MODULES = {"MC_C15.tla"}


class CaseTimeout(BaseException):
    pass


def _case_alarm(signum, frame):
    raise CaseTimeout()


def _exec_job(arg):
    """Worker process: run one job of one driver against the library; write trace + cases files."""
    drv, job, outdir, idx = arg
    os.environ["ISODATETIME_VERIF"] = "1"
    from harness.common import Recorder, check_json
    mod = importlib.import_module("harness.drivers." + drv)
    files = []
    rec = Recorder()
    nontriv = set()
    ncases = 0

    def flush():
        nonlocal rec
        if not rec.events:
            return
        check_json(rec.events)
        k = len(files)
        tp = os.path.join(outdir, "trace_%s_%04d_%02d.json" % (drv, idx, k))
        cp = os.path.join(outdir, "cases_%s_%04d_%02d.json" % (drv, idx, k))
        with open(tp, "w") as f:
            json.dump(rec.events, f, separators=(",", ":"))
        with open(cp, "w") as f:
            json.dump(rec.cases, f)
        files.append({"trace": tp, "cases": cp, "events": len(rec.events), "drv": drv,
                      "ops": sorted({e["op"] for e in rec.events})})
        rec = Recorder()

    samples = []
    for case in (job["cases"] if job.get("kind") == "_replay" else mod.expand(job)):
        cid = rec.case(case)
        n0 = len(rec.events)
        signal.signal(signal.SIGALRM, _case_alarm)       # watchdog: a library call that never returns must not hang the check
        signal.alarm(getattr(mod, "CASE_TIMEOUT", 120))
        try:
            nt = mod.run_case(case, rec, cid)
        except CaseTimeout:
            rec.ev("Raised", cid, what="case did not finish within the watchdog in %s" % drv, cls="CaseTimeout", ve=False)
            nt = True
        except Exception as exc:  # noqa: BLE001 - an exception escaping the library on an input the driver built as valid
            rec.ev("Raised", cid, what="unexpected exception in %s" % drv, cls=type(exc).__name__,
                   ve=isinstance(exc, ValueError))
            nt = True
        finally:
            signal.alarm(0)
        ncases += 1
        if nt:
            nontriv.add(hashlib.sha1(json.dumps(case, sort_keys=True).encode()).hexdigest()[:16])
        if len(samples) < 2 and len(rec.events) > n0 + 1:
            ev = rec.events[n0 + 1]
            if len(json.dumps(ev)) < 3000:
                samples.append({"case": case, "event": ev})
        if len(rec.events) >= MAX_EVENTS_PER_FILE:
            flush()
    flush()
    return {"files": files, "cases": ncases, "nontrivial": sorted(nontriv), "samples": samples}


def load_known():
    if not os.path.exists(KNOWN):
        return []
    with open(KNOWN) as f:
        return [e for e in json.load(f)["findings"] if e.get("status") == "known"]


def run_drivers(prop, drivers, tier, seed, scratch, only_cases=None):
    """drivers: list of driver module names. Returns (file records, case count, nontrivial ids, samples)."""
    tasks = []
    for drv in drivers:
        mod = importlib.import_module("harness.drivers." + drv)
        if only_cases is not None:
            js = [{"kind": "_replay", "cases": only_cases}]
        else:
            js = mod.jobs(tier, seed)
        for i, job in enumerate(js):
            tasks.append((drv, job, scratch, len(tasks)))
    ctx = mp.get_context("fork")
    with ctx.Pool(min(16, max(1, len(tasks))), maxtasksperchild=1) as pool:      # every job in a fresh child: no state leaks between jobs
        results = pool.map(_exec_job, tasks, chunksize=1)
    files, ncases, nontriv, samples = [], 0, set(), []
    for r in results:
        files += r["files"]
        ncases += r["cases"]
        nontriv |= set(r["nontrivial"])
        samples += r["samples"]
    return files, ncases, nontriv, samples


def classify(prop, drv, case, rej, events):
    mod = importlib.import_module("harness.drivers." + drv)
    fn = getattr(mod, "classify", None)
    return fn(case, rej, events) if fn else None


def check(prop, spec, tier, seed, replay=None):
    """spec: registry entry {drivers, mc: [...], level_note, rule}. Returns exit code."""
    t0 = time.time()
    scratch = tempfile.mkdtemp(prefix="isodt_verif_")
    violations, known_hits, ext_devs = [], [], []
    mc_states = mc_trans = 0
    mc_runs = []
    try:
        # ---- 1. model checking of the specification instances (not for --replay)
        if replay is None:
            for inst in spec.get("mc", []):
                if tier == "quick" and inst.get("tier") == "thorough":
                    continue
                cfg = inst["cfg_quick"] if (tier == "quick" and "cfg_quick" in inst) else inst["cfg"]
                want_cov = tier == "thorough" and not inst.get("expect_violation") and inst.get("coverage", False)
                # (instances of a module whose VIEW hides its depth counter are explored by ONE worker: breadth-first order then
                #  reaches every view-state first at its minimal depth, so the depth bound cuts nothing that is reachable within it;
                #  with several workers the order - and with it the explored set - varies from run to run)
                workers = 1 if inst["module"] in SINGLE_WORKER_MODULES else 16
                r = tlc.model_check(inst["module"], cfg, scratch, timeout=inst.get("timeout", 3000), workers=workers,
                                    simulate=inst.get("simulate"), coverage=want_cov)
                if want_cov:      # vacuity control: every action of the instance must have been taken
                    dead = sorted(a for a, n in r["coverage"].items() if n == 0 and a not in inst.get("may_be_idle", []))
                    if dead:
                        raise tlc.MachineryError("vacuous model-checking run %s/%s: actions never taken: %s" % (inst["module"], cfg, dead))
                if r["violated"] != bool(inst.get("expect_violation", False)):
                    if inst.get("expect_violation"):
                        raise tlc.MachineryError("sensitivity twin %s/%s was NOT rejected by TLC" % (inst["module"], cfg))
                    rp = _write_replay(prop, {"kind": "spec-counterexample", "module": inst["module"], "cfg": cfg,
                                              "tlc_output_tail": r["out"].splitlines()[-60:]})
                    violations.append({"what": "TLC found a counterexample in %s/%s" % (inst["module"], cfg), "replay": rp})
                if not inst.get("expect_violation"):
                    mc_states += r["states"]
                    mc_trans += r["transitions"]
                mc_runs.append({"module": inst["module"], "cfg": cfg, "states": r["states"],
                                "transitions": r["transitions"], "wall_s": round(r["wall_s"], 1),
                                "twin_rejected": bool(inst.get("expect_violation")),
                                "action_counts": r.get("coverage", {})})
            # unbounded lemmas with Apalache (thorough tier only)
            for ap in spec.get("apalache", []) if tier == "thorough" else []:
                import subprocess
                outdir = tempfile.mkdtemp(prefix="apa", dir=scratch)
                t1 = time.time()
                try:
                    pr = subprocess.run(["apalache-mc", "check", "--inv=" + ap["inv"], "--length=0", "--out-dir=" + outdir, ap["module"]],
                                        cwd=tlc.SPEC_DIR, capture_output=True, text=True, timeout=ap.get("timeout", 1500))
                except subprocess.TimeoutExpired as exc:
                    raise tlc.MachineryError("Apalache timed out on %s" % ap["module"]) from exc
                okap = "The outcome is: NoError" in pr.stdout
                if not okap:
                    if "The outcome is: Error" in pr.stdout:
                        rp = _write_replay(prop, {"kind": "spec-counterexample", "module": ap["module"], "cfg": ap["inv"],
                                                  "tlc_output_tail": pr.stdout.splitlines()[-40:]})
                        violations.append({"what": "Apalache refuted %s of %s" % (ap["inv"], ap["module"]), "replay": rp})
                    else:
                        raise tlc.MachineryError("Apalache failed on %s:\n%s" % (ap["module"], pr.stdout[-1500:]))
                mc_runs.append({"module": ap["module"], "cfg": "apalache --inv=%s (unbounded over Int)" % ap["inv"], "states": 0,
                                "transitions": 0, "wall_s": round(time.time() - t1, 1), "twin_rejected": False, "proved": okap})
        # ---- 2. run the library, record traces
        only = None
        if replay is not None:
            with open(replay) as f:
                rp = json.load(f)
            if rp.get("kind") == "spec-counterexample":
                print("replay of a specification counterexample: re-run ./check %s" % prop)
                return 0
            only = [rp["case"]]
            spec = dict(spec, drivers=[rp["driver"]])
        files, ncases, nontriv, samples = run_drivers(prop, spec["drivers"], tier, seed, scratch, only)
        # ---- 3. validate with TLC
        results = tlc.validate_traces([f["trace"] for f in files], scratch)
        known = load_known()
        tr_states = tr_trans = nevents = 0
        ops = set()
        for f, r in zip(files, results):
            if r["n"] != f["events"]:
                raise tlc.MachineryError("TLC consumed %s of %s events in %s" % (r["n"], f["events"], f["trace"]))
            tr_states += r["states"]
            tr_trans += r["transitions"]
            nevents += r["n"]
            ops |= set(f["ops"])
            if not r["rejects"]:
                continue
            with open(f["cases"]) as fh:
                cases = json.load(fh)
            with open(f["trace"]) as fh:
                events = json.load(fh)
            by_case = {}
            for rej in r["rejects"]:
                by_case.setdefault(rej["cid"], []).append(rej)
            for cid_, rejs in by_case.items():
                case = cases[cid_]
                cevents = [e for e in events if e["cid"] == cid_]
                unknown = None
                hits = []
                for rej in rejs:
                    ev = events[rej["l"] - 1]
                    if rej["clause"].startswith("ext:"):
                        # a clause of the specification that goes beyond the listed property: reported, never an alarm
                        ext_devs.append({"op": rej["op"], "clause": rej["clause"], "case": case})
                        continue
                    tag = classify(prop, f["drv"], case, dict(rej, event=ev), cevents)
                    hit = next((k for k in known if k["property"] == prop and tag is not None and k["tag"] == tag), None)
                    if hit:
                        hits.append({"tag": tag, "what": hit["what"], "example": case})
                    elif unknown is None:
                        unknown = (rej, ev, tag)
                if unknown is None:
                    known_hits.extend(hits[:1])
                    continue
                rej, ev, tag = unknown
                rp = _write_replay(prop, {"kind": "trace", "property": prop, "driver": f["drv"], "case": case,
                                          "op": rej["op"], "clause": rej["clause"], "event": ev, "tag": tag})
                violations.append({"what": "%s rejected: clause %s" % (rej["op"], rej["clause"]), "replay": rp,
                                   "case": case})
        # ---- 4. report
        seen_tags = {}
        for k in known_hits:
            seen_tags.setdefault(k["tag"], k)
        for tag, k in sorted(seen_tags.items()):
            n = sum(1 for x in known_hits if x["tag"] == tag)
            print("KNOWN-FINDING: property=%s %s [%s; %d occurrence(s) this run; e.g. %s]"
                  % (prop, k["what"], tag, n, json.dumps(k["example"], sort_keys=True)[:300]))
        for cl in sorted({x["clause"] for x in ext_devs}):
            xs = [x for x in ext_devs if x["clause"] == cl]
            print("SPEC-DEVIATION (beyond the listed properties, not a violation of %s): %s; %d occurrence(s); e.g. %s"
                  % (prop, cl, len(xs), json.dumps(xs[0]["case"], sort_keys=True)[:300]))
        for v in violations[:50]:
            print("VIOLATION property=%s replay=%s" % (prop, v["replay"]))
            print("  " + v["what"] + (("  case=" + json.dumps(v.get("case"), sort_keys=True)[:400]) if v.get("case") else ""))
        if len(violations) > 50:
            print("  ... %d more violations" % (len(violations) - 50))
        wall = time.time() - t0
        if replay is None:
            expected_ops = set(spec.get("expect_ops", []))
            if not expected_ops <= ops:
                raise tlc.MachineryError("tracer gap: event kinds never recorded: %s" % sorted(expected_ops - ops))
            if not os.environ.get("VERIF_NO_EVIDENCE"):
                _write_evidence(prop, spec, tier, seed, wall, mc_states, mc_trans, mc_runs, tr_states, tr_trans,
                                len(files), nevents, ncases, len(nontriv), samples, violations, known_hits, sorted(ops), len(ext_devs))
        print("%s %s: %d spec states (MC) + %d trace states; %d cases, %d events in %d trace files; "
              "%d violation(s), %d known-finding hit(s); %.1fs"
              % (prop, tier, mc_states, tr_states, ncases, nevents, len(files), len(violations), len(known_hits), wall))
        return 1 if violations else 0
    finally:
        shutil.rmtree(scratch, ignore_errors=True)


def _write_replay(prop, obj):
    d = os.path.join(REPLAY_DIR, prop)
    os.makedirs(d, exist_ok=True)
    s = json.dumps(obj, sort_keys=True, indent=1)
    p = os.path.join(d, hashlib.sha1(s.encode()).hexdigest()[:12] + ".json")
    with open(p, "w") as f:
        f.write(s)
    return p


def _write_evidence(prop, spec, tier, seed, wall, mc_states, mc_trans, mc_runs, tr_states, tr_trans, nfiles,
                    nevents, ncases, nontriv, samples, violations, known_hits, ops, n_ext=0):
    os.makedirs(EVID_DIR, exist_ok=True)
    ev = {
        "property_id": prop, "tier": tier, "seed": int(seed), "level": "model_checking",
        "coverage": {
            "states": max(1, mc_states + tr_states),
            "transitions": max(1, mc_trans + tr_trans),
            "spec_model_checking": {"states": mc_states, "transitions": mc_trans, "runs": mc_runs},
            "trace_validation": {"states": tr_states, "transitions": tr_trans, "trace_files": nfiles,
                                 "events_validated": nevents, "event_kinds": ops},
            "traces_validated_against_impl": ncases,
            "evaluations": max(1, nevents),
            "distinct_nontrivial": nontriv,
            "rule": spec.get("rule", ""),
            "samples": samples[:6] if samples else [{"note": "no library execution in this run"}],
            "exhaustive": bool(spec.get("exhaustive", {}).get(tier, False)),
            "exhaustive_part": spec.get("exhaustive_part", {}).get(tier, ""),
            "known_finding_hits": len(known_hits),
            "extended_spec_deviations": n_ext,
        },
        "assumptions": spec.get("assumptions", []),
        "wall_s": round(wall, 2),
        "violations": len(violations),
    }
    with open(os.path.join(EVID_DIR, prop + ".json"), "w") as f:
        json.dump(ev, f, indent=1)
